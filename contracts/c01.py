"""C01 -- EM motive-list files: data-flow of EmMotl.write_out / read_in and of the Motl.write_out dispatch for tables in ANY
column order (symbolic permutation), NaN filling and float32 narrowing (deductive); bytes on disk via an independent EM
parser (bounded)."""
import z3
from vfw import sym
from vfw.sym import SV, SB, ctx, Unsupported
from vfw.engine import Contract
from vfw.models import frames, misc
from . import common
from .common import MOTL_COLS, zr

CANON = ["score", "geom1", "geom2", "subtomo_id", "tomo_id", "object_id", "subtomo_mean", "x", "y", "z",
         "shift_x", "shift_y", "shift_z", "geom3", "geom4", "geom5", "phi", "psi", "theta", "class"]  # from the property statement


class EmfileStub:
    """assumed contract of the emfile package: write(path, array, header, overwrite) stores the array; read returns it"""

    def __init__(self):
        self.written = []

    def write(self, path, data, header=None, overwrite=False):
        self.written.append({"path": path, "data": data, "overwrite": overwrite})

    def read(self, path):
        raise Unsupported("emfile.read in this binding")


class OsStub:
    class path:
        @staticmethod
        def isfile(p):
            return True


def _perm(cx):
    p = [z3.Int(f"perm{j}") for j in range(20)]
    cx.assume(z3.And(z3.Distinct(*p), *[z3.And(x >= 0, x < 20) for x in p]))
    return p


def _fill0(t):
    return z3.If(frames.ISNAN(t), z3.RealVal(0), t)


class _Write(Contract):
    prop = "C01"
    module = "cryomotl"
    path_kind = None

    def bind(self, cx, cfg):
        em = EmfileStub()
        it = common.motl_interp(extra={"emfile": em, "Path": str})
        df = common.fresh_motl_frame(angles=False, nan_free=False, perm=_perm(cx))
        cx.assume(df.space.n.t >= 1)
        if self.path_kind == "EmMotl.write_out":
            me = common.motl_obj(it, df, "EmMotl")
            me.header = {}
            thunk = lambda: it.function("EmMotl.write_out").bind(me)("out.em")
        else:
            me = common.motl_obj(it, df, "Motl")
            thunk = lambda: it.function("Motl.write_out").bind(me)("out.em", "emmotl")
        return thunk, {"em": em, "old": common.old_row(), "df": df}

    def post(self, cx, cfg, inp, res):
        w = inp["em"].written
        cl = [("writes_exactly_once", z3.BoolVal(len(w) == 1))]
        if len(w) != 1:
            return cl
        a = w[0]["data"]
        ok_shape = isinstance(a, frames.RowArr) and a.k == 20 and a.lead == 1
        cl.append(("shape_1_N_20", z3.BoolVal(bool(ok_shape))))
        cl.append(("dtype_float32", z3.BoolVal(bool(getattr(a, "f32", False)))))
        if not ok_shape:
            return cl
        cl.append(("all_rows_written", z3.simplify(a.present) == z3.BoolVal(True), ()))
        for j, c in enumerate(CANON):
            cl.append((f"file_field_{j}_is_{c}", zr(a.vals[j]) == frames.F32(_fill0(inp["old"][c])), ()))
        return cl

    def replay(self, clause, model, cfg):
        from rtc import c01 as r
        return r.replay_write(model, self.path_kind)


class EmWrite(_Write):
    qual = "EmMotl.write_out"
    path_kind = "EmMotl.write_out"


class MotlWriteDispatch(_Write):
    qual = "Motl.write_out"
    path_kind = "Motl.write_out"


class CheckFormat(Contract):
    """the constructor accepts every permutation of the 20 names"""
    prop = "C01"
    module = "cryomotl"
    qual = "Motl.check_df_correct_format"

    def bind(self, cx, cfg):
        it = common.motl_interp()
        df = common.fresh_motl_frame(angles=False, nan_free=False, perm=_perm(cx))
        return (lambda: it.function("Motl.check_df_correct_format")(df)), {}

    def post(self, cx, cfg, inp, res):
        return [("accepts_any_column_order", z3.BoolVal(res is True))]


class EmRead(Contract):
    prop = "C01"
    module = "cryomotl"
    qual = "EmMotl.read_in"
    configs = [{"width": 20}, {"width": 19}, {"width": 21}]

    def bind(self, cx, cfg):
        sp_holder = {}

        class Em:
            @staticmethod
            def read(path):
                sp = frames.Space(tag="file")
                vals = [SV(z3.Real(f"file_{j}")) for j in range(cfg["width"])]
                return {}, FileArr(frames.RowArr(vals, sp))

        it = common.motl_interp(extra={"emfile": Em, "os": OsStub})
        return (lambda: it.function("EmMotl.read_in")("in.em")), {}

    def post(self, cx, cfg, inp, res):
        if cfg["width"] != 20:
            return [("wrong_width_rejected", z3.BoolVal(False))]
        df, header = res
        cl = [("columns_canonical", z3.BoolVal(list(df.cols) == CANON)), ("all_rows", z3.simplify(df.present) == z3.BoolVal(True), ())]
        for j, c in enumerate(CANON):
            cl.append((f"field_{c}_from_file_column_{j}", zr(df.row[c]) == z3.Real(f"file_{j}"), ()))
        return cl

    def raises(self, cx, cfg, inp, exc):
        return z3.BoolVal(cfg["width"] != 20 and exc.exc_type == "UserInputError")


class FileArr:
    """(1,N,k) array returned by emfile.read"""
    __generic__ = True

    def __init__(self, rows):
        self.rows = rows

    def __getitem__(self, k):
        if k == 0:
            return _Plane(self.rows)
        raise Unsupported("FileArr index")


class _Plane(frames.RowArr):
    def __init__(self, ra):
        super().__init__(ra.vals, ra.space, ra.present)

    def __getitem__(self, k):
        if k == 0:
            return list(self.vals)
        return super().__getitem__(k)


CONTRACTS = [CheckFormat, EmWrite, MotlWriteDispatch, EmRead]
LEVEL = "proof"
EXPLANATION = ("The table's column order is a symbolic permutation (20 integer constants, Distinct): the array handed to emfile.write must have, in file column j, the "
               "float32 narrowing of the NaN-filled value of the j-th canonical field, shape (1,N,20), for both dispatch paths; read_in names file column j canon[j] and "
               "rejects widths != 20; round trip = composition of the two contracts with emfile read o write = id (assumed). Bytes on disk: independent EM parser, bounded.")
ASSUMPTIONS = ["emfile.write stores exactly the array it is given (header xdim,ydim,zdim = shape[2],shape[1],shape[0]) and emfile.read returns it -- assumed, checked against an independent EM parser on bounded inputs",
               "float32 narrowing is an uninterpreted idempotent function f32 with f32(0)=0; NaN is modelled by an uninterpreted predicate isnan",
               "DataFrame.to_numpy() puts the frame's j-th column into array column j"]


def lemmas(ck):
    f = frames.F32
    x = z3.Real("x")
    ck.lemma("roundtrip_value", [f(f(x)) == f(x)], f(f(x)) == f(x), tactics=(),
             note="load(write(T))[r][canon[j]] = file[r][j] (EmRead) = f32(fill0(T[r][canon[j]])) (EmWrite); reading yields float64 of a float32, i.e. the single-precision rounding")


def run(ck):
    for C in CONTRACTS:
        ck.run_contract(C())
    lemmas(ck)
    from rtc import c01 as r
    n = 60 if ck.tier == "quick" else 1200
    ck.bounded_run("em_bytes", r.gen_cases(ck.seed, n), r.run_case, ref="rtc.c01:run_case",
                   rule="tables with N in {1,2,7,64,..} rows, column order = identity / reverse / adjacent transpositions / seeded permutations, NaN holes, values up to +-3e38; both write paths; "
                        "file parsed by an independent EM parser (struct-unpacked header, <f4 payload) and re-loaded with Motl.load. distinct = (case, path, permutation kind, N)",
                   bound=f"{n} cases, N <= 300")
