"""C08 -- particle-list set algebra.  Deductive (generic row): get_motl_subset, remove_feature (+ complement lemma),
get_motl_intersection (membership with multiplicity), merge_and_renumber (collision-free object numbers, ids 1..N),
renumber_particles, 20-field schema of every result.  Bounded: histories against a pure-Python row-set model, including
drop_duplicates / split_by_feature / renumber_objects_sequentially / merge_and_drop_duplicates."""
import z3
from vfw import sym
from vfw.sym import SV, SB, ctx
from vfw.engine import Contract
from vfw.models import frames, misc
from . import common
from .common import MOTL_COLS, zr


def _schema(df):
    return z3.BoolVal(sorted(df.cols) == sorted(MOTL_COLS) and len(df.cols) == 20)


def _unchanged(df, old, cols=MOTL_COLS):
    return z3.And(*[zr(df.row[c]) == old[c] for c in cols])


class GetSubset(Contract):
    prop = "C08"
    module = "cryomotl"
    qual = "Motl.get_motl_subset"
    configs = [{"m": 1, "feature": "tomo_id"}, {"m": 3, "feature": "object_id"}, {"m": 2, "feature": "class"}]

    def cfg_name(self, cfg):
        return f"{cfg['m']}values,{cfg['feature']}"

    def bind(self, cx, cfg):
        it = common.motl_interp()
        df = common.fresh_motl_frame(angles=False)
        me = common.motl_obj(it, df)
        vs = [SV(z3.Real(f"v{j}")) for j in range(cfg["m"])]
        cx.assume(z3.Distinct(*[v.t for v in vs]) if len(vs) > 1 else z3.BoolVal(True))  # requires: requested values are distinct
        arg = list(vs) if cfg["m"] > 1 else vs[0]
        return (lambda: it.function("Motl.get_motl_subset").bind(me)(arg, feature_id=cfg["feature"])), {"me": me, "vs": vs, "old": common.old_row()}

    def post(self, cx, cfg, inp, res):
        out, old = res.df, inp["old"]
        match = z3.Or(*[old[cfg["feature"]] == v.t for v in inp["vs"]])
        cl = [("schema_20_fields", _schema(out)), ("member_iff_matching", out.present == match, ()),
              ("rows_unchanged", _unchanged(out, old), ()), ("frame.self_untouched", _unchanged(inp["me"].df, old), ())]
        if out.mult is not None:
            cl.append(("multiplicity_one", z3.Implies(out.present, out.mult == 1), ()))
        return cl

    def replay(self, clause, model, cfg):
        from rtc import c08 as r
        return r.replay_select(model, cfg["feature"], cfg["m"], "subset")


class RemoveFeature(Contract):
    prop = "C08"
    module = "cryomotl"
    qual = "Motl.remove_feature"
    configs = [{"m": 1, "feature": "tomo_id"}, {"m": 3, "feature": "subtomo_id"}]

    def cfg_name(self, cfg):
        return f"{cfg['m']}values,{cfg['feature']}"

    def bind(self, cx, cfg):
        it = common.motl_interp()
        df = common.fresh_motl_frame(angles=False)
        me = common.motl_obj(it, df)
        vs = [SV(z3.Real(f"v{j}")) for j in range(cfg["m"])]
        arg = list(vs) if cfg["m"] > 1 else vs[0]
        return (lambda: it.function("Motl.remove_feature").bind(me)(cfg["feature"], arg)), {"me": me, "vs": vs, "old": common.old_row()}

    def post(self, cx, cfg, inp, res):
        out, old = inp["me"].df, inp["old"]
        match = z3.Or(*[old[cfg["feature"]] == v.t for v in inp["vs"]])
        return [("schema_20_fields", _schema(out)), ("member_iff_not_matching", out.present == z3.Not(match), ()), ("rows_unchanged", _unchanged(out, old), ())]

    def replay(self, clause, model, cfg):
        from rtc import c08 as r
        return r.replay_select(model, cfg["feature"], cfg["m"], "remove")


class Intersection(Contract):
    prop = "C08"
    module = "cryomotl"
    qual = "Motl.get_motl_intersection"
    configs = [{"feature": "subtomo_id"}, {"feature": "tomo_id"}]

    def cfg_name(self, cfg):
        return cfg["feature"]

    def bind(self, cx, cfg):
        it = common.motl_interp()
        d1 = common.fresh_motl_frame(angles=False)
        d2 = common.fresh_motl_frame(prefix="b_", angles=False)
        m1, m2 = common.motl_obj(it, d1), common.motl_obj(it, d2)
        f = it.function("Motl.get_motl_intersection").bind(it.globals["Motl"])
        return (lambda: f(m1, m2, feature_id=cfg["feature"])), {"m1": m1, "m2": m2, "old": common.old_row()}

    def post(self, cx, cfg, inp, res):
        out, old = res.df, inp["old"]
        ft = cfg["feature"]
        cnt = z3.Function(f"count!{inp['m2'].df.space.pos_id}!{ft}", z3.RealSort(), z3.IntSort())  # occurrences of a value in the second list
        occurs = cnt(old[ft]) >= 1
        cl = [("schema_20_fields", _schema(out)), ("member_iff_id_in_second", out.present == occurs, ()), ("rows_unchanged", _unchanged(out, old), ())]
        cl.append(("exactly_once", z3.Implies(out.present, (out.mult if out.mult is not None else z3.IntVal(1)) == 1), ()))
        return cl

    def replay(self, clause, model, cfg):
        from rtc import c08 as r
        return r.replay_intersection(cfg["feature"])


class MergeAndRenumber(Contract):
    prop = "C08"
    module = "cryomotl"
    qual = "Motl.merge_and_renumber"
    configs = [{"k": 2}, {"k": 3}]

    def cfg_name(self, cfg):
        return f"{cfg['k']}lists"

    def bind(self, cx, cfg):
        it = common.motl_interp()
        ds = [common.fresh_motl_frame(prefix=f"l{j}_", angles=False) for j in range(cfg["k"])]
        for d in ds:
            cx.assume(d.space.n.t >= 1)
        ms = [common.motl_obj(it, d) for d in ds]
        f = it.function("Motl.merge_and_renumber").bind(it.globals["Motl"])
        return (lambda: f(list(ms))), {"ms": ms, "k": cfg["k"]}

    def post(self, cx, cfg, inp, res):
        out = res.df
        parts = getattr(out, "parts", None)
        cl = [("schema_20_fields", _schema(out))]
        if parts is None or len(parts) != cfg["k"]:
            return cl + [("result_is_concatenation_of_inputs", z3.BoolVal(False))]
        old = [common.old_row(f"l{j}_") for j in range(cfg["k"])]
        # object numbers of rows of different inputs never collide; within one input they shift by a constant (a value that does
        # not depend on the row: stated as equality of the shift for the generic row with a row-independent term is implied by
        # new - old having no row symbols; here: new_j - old_j == new'_j - old'_j is checked through a second instance in the bounded part)
        for a in range(cfg["k"]):
            for b in range(a + 1, cfg["k"]):
                cl.append((f"no_collision_{a}_{b}", z3.Implies(z3.And(parts[a].present, parts[b].present), zr(parts[a].row["object_id"]) != zr(parts[b].row["object_id"])), ()))
        for j in range(cfg["k"]):
            cl.append((f"input_{j}_other_fields_unchanged", _unchanged(parts[j], old[j], [c for c in MOTL_COLS if c not in ("object_id", "subtomo_id")]), ()))
            cl.append((f"frame.input_{j}_untouched", _unchanged(inp["ms"][j].df, old[j]), ()))
        pos = frames.RowPos(out.space).val.t
        cl.append(("subtomo_id_is_position_plus_1", zr(out.row["subtomo_id"]) == z3.ToReal(pos) + 1, ()))
        cl.append(("row_count_is_sum", out.space.n.t == sum((p.space.n.t for p in parts), z3.IntVal(0)), ()))
        return cl


class RenumberParticles(Contract):
    prop = "C08"
    module = "cryomotl"
    qual = "Motl.renumber_particles"

    def bind(self, cx, cfg):
        it = common.motl_interp()
        df = common.fresh_motl_frame(angles=False)
        me = common.motl_obj(it, df)
        return (lambda: it.function("Motl.renumber_particles").bind(me)()), {"me": me, "old": common.old_row()}

    def post(self, cx, cfg, inp, res):
        out, old = inp["me"].df, inp["old"]
        pos = frames.RowPos(out.space).val.t
        return [("schema_20_fields", _schema(out)), ("ids_1_to_N", zr(out.row["subtomo_id"]) == z3.ToReal(pos) + 1, ()),
                ("other_fields_unchanged", _unchanged(out, old, [c for c in MOTL_COLS if c != "subtomo_id"]), ()), ("rows_kept", z3.simplify(out.present) == z3.BoolVal(True), ())]


class SplitByFeature(Contract):
    """split_by_feature(field): one list per distinct value of the field; the generic row lies in the piece of its own value (and, the pieces being
    selected by equality with pairwise different values, in no other), unchanged, under the 20-field schema"""
    prop = "C08"
    module = "cryomotl"
    qual = "Motl.split_by_feature"
    configs = [{"feature": "tomo_id"}, {"feature": "object_id"}, {"feature": "class"}]

    def cfg_name(self, cfg):
        return cfg["feature"]

    def bind(self, cx, cfg):
        it = common.motl_interp()
        df = common.fresh_motl_frame(angles=False)
        me = common.motl_obj(it, df)
        return (lambda: it.function("Motl.split_by_feature").bind(me)(cfg["feature"])), {"me": me, "old": common.old_row()}

    def post(self, cx, cfg, inp, res):
        old = inp["old"]
        ok = isinstance(res, list) and len(res) == 1 and hasattr(res[0], "df") and isinstance(res[0].df, frames.GFrame)
        cl = [("one_piece_per_distinct_value", z3.BoolVal(bool(ok)))]
        if not ok:
            return cl
        out = res[0].df
        return cl + [("schema_20_fields", _schema(out)), ("row_lies_in_the_piece_of_its_own_value", z3.simplify(out.present) == z3.BoolVal(True), ()),
                     ("rows_unchanged", _unchanged(out, old), ()), ("frame.self_untouched", _unchanged(inp["me"].df, old), ())]


class _SortTable:
    """a table as position functions (row position -> cell), with the two pandas operations Motl.drop_duplicates uses, under their assumed contracts:
    sort_values(by=[k1, k2], ascending=[a1, a2]) -- a permutation of the rows, lexicographically ordered by (k1, k2) in the given directions;
    drop_duplicates(subset=k) -- keeps, in order, exactly the rows that are the FIRST occurrence of their value of k"""
    n_made = 0

    def __init__(self, cols, n, src=None, kept=None, history=()):
        self.cols, self.n, self.src, self.kept, self.history = cols, n, src, kept, list(history)
        self.reset = False

    @staticmethod
    def fresh(names, prefix):
        n = z3.Int(f"N_{prefix}")
        ctx().assume(n >= 0)
        return _SortTable({c: z3.Function(f"{prefix}{c}", z3.IntSort(), z3.RealSort()) for c in names}, n)

    def sort_values(self, by=None, ascending=True, **k):
        if not (isinstance(by, list) and len(by) == 2 and isinstance(ascending, list) and len(ascending) == 2 and all(isinstance(a, bool) for a in ascending)) or k:
            raise sym.Unsupported("sort_values form")
        cx = ctx()
        _SortTable.n_made += 1
        u = _SortTable.n_made
        pi = z3.Function(f"sorted_from!{u}", z3.IntSort(), z3.IntSort())
        inv = z3.Function(f"sorted_to!{u}", z3.IntSort(), z3.IntSort())
        n = self.n
        a, b = z3.Ints(f"a!s{u} b!s{u}")
        k1, k2 = (lambda i: self.cols[by[0]](pi(i))), (lambda i: self.cols[by[1]](pi(i)))
        lt = lambda x, y, asc: (x < y) if asc else (x > y)
        cx.axiom("DataFrame.sort_values(by=[k1,k2], ascending=[a1,a2]): a permutation of the rows in lexicographic order",
                 z3.And(z3.ForAll([a], z3.Implies(z3.And(a >= 0, a < n), z3.And(pi(a) >= 0, pi(a) < n, inv(pi(a)) == a, inv(a) >= 0, inv(a) < n, pi(inv(a)) == a))),
                        z3.ForAll([a, b], z3.Implies(z3.And(a >= 0, a < b, b < n), z3.Or(lt(k1(a), k1(b), ascending[0]), z3.And(k1(a) == k1(b), z3.Or(lt(k2(a), k2(b), ascending[1]), k2(a) == k2(b))))))))
        cols = {c: (lambda i, g=g: g(pi(i))) for c, g in self.cols.items()}
        return _SortTable(cols, n, src=self, history=self.history + [("sort", by, ascending, pi, inv)])

    def drop_duplicates(self, subset=None, **k):
        if not isinstance(subset, str) or k:
            raise sym.Unsupported("drop_duplicates form")
        key = self.cols[subset]
        n = self.n
        j = z3.Int(f"j!d{len(self.history)}")
        kept = lambda i: z3.And(i >= 0, i < n, z3.ForAll([j], z3.Implies(z3.And(j >= 0, j < i), key(j) != key(i))))
        first = z3.Function(f"first_occurrence!{len(self.history)}", z3.IntSort(), z3.IntSort())
        q = z3.Int(f"q!d{len(self.history)}")
        ctx().axiom("drop_duplicates(subset=k): every row has a first occurrence of its value of k, which is kept (well-ordering of the row positions)",
                    z3.ForAll([q], z3.Implies(z3.And(q >= 0, q < n), z3.And(first(q) >= 0, first(q) <= q, key(first(q)) == key(q), kept(first(q))))))
        r = _SortTable(self.cols, n, src=self, kept=kept, history=self.history + [("drop", subset)])
        r.first = first
        return r

    def reset_index(self, inplace=False, drop=False, **k):
        self.reset = bool(inplace and drop)


class DropDuplicates(Contract):
    """Motl.drop_duplicates(): exactly one row per id survives, it is a best-scoring row of that id (highest score by default, lowest when
    ascending is requested), rows are otherwise unchanged, index reset"""
    prop = "C08"
    module = "cryomotl"
    qual = "Motl.drop_duplicates"
    configs = [{"asc": False, "dup": "subtomo_id", "dec": "score"}, {"asc": True, "dup": "geom3", "dec": "geom1"}]

    def cfg_name(self, cfg):
        return f"{cfg['dup']} by {cfg['dec']},ascending={cfg['asc']}"

    def bind(self, cx, cfg):
        it = common.motl_interp()
        T = _SortTable.fresh(MOTL_COLS, "dd_")
        me = misc.SelfObj(it, "Motl", df=T)
        f = it.function("Motl.drop_duplicates").bind(me)
        kw = {} if (cfg["dup"], cfg["dec"], cfg["asc"]) == ("subtomo_id", "score", False) else {"duplicates_column": cfg["dup"], "decision_column": cfg["dec"], "decision_sort_ascending": cfg["asc"]}
        return (lambda: f(**kw)), {"T": T, "me": me}

    def post(self, cx, cfg, inp, res):
        T, out = inp["T"], inp["me"].df
        ok = isinstance(out, _SortTable) and out.kept is not None and [h[0] for h in out.history] == ["sort", "drop"] and out.reset
        cl = [("sorted_then_first_occurrences_kept_index_reset", z3.BoolVal(bool(ok)))]
        if not ok:
            return cl
        _, by, asc, pi, inv = out.history[0]
        n = T.n
        S = out.src                                   # the sorted table: the survivors are rows of it
        ids, scs = S.cols[cfg["dup"]], S.cols[cfg["dec"]]
        p_, q_ = z3.Ints("p!dd q!dd")
        rng = lambda x: z3.And(x >= 0, x < n)
        better = (lambda x, y: scs(x) <= scs(y)) if cfg["asc"] else (lambda x, y: scs(x) >= scs(y))
        cl += [("survivor_is_a_best_scoring_row_of_its_id", z3.ForAll([p_, q_], z3.Implies(z3.And(rng(p_), rng(q_), out.kept(p_), ids(q_) == ids(p_)), better(p_, q_))), ()),
               ("no_id_survives_twice", z3.ForAll([p_, q_], z3.Implies(z3.And(rng(p_), rng(q_), p_ != q_, out.kept(p_), out.kept(q_)), ids(p_) != ids(q_))), ()),
               ("every_id_keeps_a_row", z3.ForAll([q_], z3.Implies(rng(q_), z3.And(rng(out.first(q_)), out.kept(out.first(q_)), ids(out.first(q_)) == ids(q_)))), ()),
               ("rows_are_unchanged_rows_of_the_list_each_used_once", z3.ForAll([p_], z3.Implies(rng(p_), z3.And(rng(pi(p_)), inv(pi(p_)) == p_, *[S.cols[c](p_) == T.cols[c](pi(p_)) for c in MOTL_COLS]))), ())]
        return cl

    def replay(self, clause, model, cfg):
        return {"reproduced": None, "why": "decided by the bounded histories"}


CONTRACTS = [GetSubset, RemoveFeature, Intersection, MergeAndRenumber, RenumberParticles, SplitByFeature, DropDuplicates]
LEVEL = "proof"
EXPLANATION = ("Membership (with multiplicity), row preservation and the 20-field schema are postconditions of get_motl_subset, remove_feature, get_motl_intersection, "
               "merge_and_renumber (2 and 3 inputs: object numbers of different inputs differ for arbitrary rows, ids = position+1) and renumber_particles, proved on generic rows "
               "of the real AST; selection/removal complementarity as a lemma; since every operation's contract has wf(old) => wf(new) the schema holds after any history. "
               "Order inside results, renumber_objects_sequentially (groupby.apply) and merge_and_drop_duplicates: bounded histories only.")
ASSUMPTIONS = ["pandas contract: inner merge on a shared column repeats a left row once per matching right row, Series.drop_duplicates keeps one row per value; concat keeps all rows; min/max of a column bound every row",
               "requires of get_motl_subset: requested values distinct (duplicates would duplicate rows, as documented by the loop)"]


def lemmas(ck):
    a, b = z3.Bools("present matches")
    ck.lemma("select_remove_complementary", [], z3.And(z3.Or(z3.And(a, b), z3.And(a, z3.Not(b))) == a, z3.Not(z3.And(z3.And(a, b), z3.And(a, z3.Not(b))))), tactics=(),
             note="subset(v) and remove(v) partition the present rows: member_iff_matching and member_iff_not_matching")


def run(ck):
    for C in CONTRACTS:
        ck.run_contract(C())
    lemmas(ck)
    from rtc import c08 as r
    n = 120 if ck.tier == "quick" else 3000
    ck.bounded_run("histories", r.gen_cases(ck.seed, n, 6 if ck.tier == "quick" else 10), r.run_case, ref="rtc.c08:run_case",
                   rule="seeded lists (0..200 particles, repeated and missing values, unsorted ids) x histories of operations (subset/remove/split/intersection/drop-duplicates/merge-and-renumber/"
                        "merge-and-drop-duplicates/renumber particles/renumber objects) compared step by step with a pure-Python row-set model; distinct = (case, size, operation sequence)",
                   bound=f"{n} histories, <= {6 if ck.tier == 'quick' else 10} operations, <= 200 particles")
