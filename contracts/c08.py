"""C08 -- particle-list set algebra.  Deductive (generic row): get_motl_subset, remove_feature (+ complement lemma),
get_motl_intersection (membership with multiplicity), merge_and_renumber (collision-free object numbers, ids 1..N),
renumber_particles, 20-field schema of every result.  Bounded: histories against a pure-Python row-set model, including
drop_duplicates / split_by_feature / renumber_objects_sequentially / merge_and_drop_duplicates."""
import z3
from vfw import sym
from vfw.sym import SV, SB, ctx
from vfw.engine import Contract
from vfw.models import frames, misc
from . import common
from .common import MOTL_COLS, zr


def _schema(df):
    return z3.BoolVal(sorted(df.cols) == sorted(MOTL_COLS) and len(df.cols) == 20)


def _unchanged(df, old, cols=MOTL_COLS):
    return z3.And(*[zr(df.row[c]) == old[c] for c in cols])


class GetSubset(Contract):
    prop = "C08"
    module = "cryomotl"
    qual = "Motl.get_motl_subset"
    configs = [{"m": 1, "feature": "tomo_id"}, {"m": 3, "feature": "object_id"}, {"m": 2, "feature": "class"}]

    def cfg_name(self, cfg):
        return f"{cfg['m']}values,{cfg['feature']}"

    def bind(self, cx, cfg):
        it = common.motl_interp()
        df = common.fresh_motl_frame(angles=False)
        me = common.motl_obj(it, df)
        vs = [SV(z3.Real(f"v{j}")) for j in range(cfg["m"])]
        cx.assume(z3.Distinct(*[v.t for v in vs]) if len(vs) > 1 else z3.BoolVal(True))  # requires: requested values are distinct
        arg = list(vs) if cfg["m"] > 1 else vs[0]
        return (lambda: it.function("Motl.get_motl_subset").bind(me)(arg, feature_id=cfg["feature"])), {"me": me, "vs": vs, "old": common.old_row()}

    def post(self, cx, cfg, inp, res):
        out, old = res.df, inp["old"]
        match = z3.Or(*[old[cfg["feature"]] == v.t for v in inp["vs"]])
        cl = [("schema_20_fields", _schema(out)), ("member_iff_matching", out.present == match, ()),
              ("rows_unchanged", _unchanged(out, old), ()), ("frame.self_untouched", _unchanged(inp["me"].df, old), ())]
        if out.mult is not None:
            cl.append(("multiplicity_one", z3.Implies(out.present, out.mult == 1), ()))
        return cl

    def replay(self, clause, model, cfg):
        from rtc import c08 as r
        return r.replay_select(model, cfg["feature"], cfg["m"], "subset")


class RemoveFeature(Contract):
    prop = "C08"
    module = "cryomotl"
    qual = "Motl.remove_feature"
    configs = [{"m": 1, "feature": "tomo_id"}, {"m": 3, "feature": "subtomo_id"}]

    def cfg_name(self, cfg):
        return f"{cfg['m']}values,{cfg['feature']}"

    def bind(self, cx, cfg):
        it = common.motl_interp()
        df = common.fresh_motl_frame(angles=False)
        me = common.motl_obj(it, df)
        vs = [SV(z3.Real(f"v{j}")) for j in range(cfg["m"])]
        arg = list(vs) if cfg["m"] > 1 else vs[0]
        return (lambda: it.function("Motl.remove_feature").bind(me)(cfg["feature"], arg)), {"me": me, "vs": vs, "old": common.old_row()}

    def post(self, cx, cfg, inp, res):
        out, old = inp["me"].df, inp["old"]
        match = z3.Or(*[old[cfg["feature"]] == v.t for v in inp["vs"]])
        return [("schema_20_fields", _schema(out)), ("member_iff_not_matching", out.present == z3.Not(match), ()), ("rows_unchanged", _unchanged(out, old), ())]

    def replay(self, clause, model, cfg):
        from rtc import c08 as r
        return r.replay_select(model, cfg["feature"], cfg["m"], "remove")


class Intersection(Contract):
    prop = "C08"
    module = "cryomotl"
    qual = "Motl.get_motl_intersection"
    configs = [{"feature": "subtomo_id"}, {"feature": "tomo_id"}]

    def cfg_name(self, cfg):
        return cfg["feature"]

    def bind(self, cx, cfg):
        it = common.motl_interp()
        d1 = common.fresh_motl_frame(angles=False)
        d2 = common.fresh_motl_frame(prefix="b_", angles=False)
        m1, m2 = common.motl_obj(it, d1), common.motl_obj(it, d2)
        f = it.function("Motl.get_motl_intersection").bind(it.globals["Motl"])
        return (lambda: f(m1, m2, feature_id=cfg["feature"])), {"m1": m1, "m2": m2, "old": common.old_row()}

    def post(self, cx, cfg, inp, res):
        out, old = res.df, inp["old"]
        ft = cfg["feature"]
        cnt = z3.Function(f"count!{inp['m2'].df.space.pos_id}!{ft}", z3.RealSort(), z3.IntSort())  # occurrences of a value in the second list
        occurs = cnt(old[ft]) >= 1
        cl = [("schema_20_fields", _schema(out)), ("member_iff_id_in_second", out.present == occurs, ()), ("rows_unchanged", _unchanged(out, old), ())]
        cl.append(("exactly_once", z3.Implies(out.present, (out.mult if out.mult is not None else z3.IntVal(1)) == 1), ()))
        return cl

    def replay(self, clause, model, cfg):
        from rtc import c08 as r
        return r.replay_intersection(cfg["feature"])


class MergeAndRenumber(Contract):
    prop = "C08"
    module = "cryomotl"
    qual = "Motl.merge_and_renumber"
    configs = [{"k": 2}, {"k": 3}]

    def cfg_name(self, cfg):
        return f"{cfg['k']}lists"

    def bind(self, cx, cfg):
        it = common.motl_interp()
        ds = [common.fresh_motl_frame(prefix=f"l{j}_", angles=False) for j in range(cfg["k"])]
        for d in ds:
            cx.assume(d.space.n.t >= 1)
        ms = [common.motl_obj(it, d) for d in ds]
        f = it.function("Motl.merge_and_renumber").bind(it.globals["Motl"])
        return (lambda: f(list(ms))), {"ms": ms, "k": cfg["k"]}

    def post(self, cx, cfg, inp, res):
        out = res.df
        parts = getattr(out, "parts", None)
        cl = [("schema_20_fields", _schema(out))]
        if parts is None or len(parts) != cfg["k"]:
            return cl + [("result_is_concatenation_of_inputs", z3.BoolVal(False))]
        old = [common.old_row(f"l{j}_") for j in range(cfg["k"])]
        # object numbers of rows of different inputs never collide; within one input they shift by a constant (a value that does
        # not depend on the row: stated as equality of the shift for the generic row with a row-independent term is implied by
        # new - old having no row symbols; here: new_j - old_j == new'_j - old'_j is checked through a second instance in the bounded part)
        for a in range(cfg["k"]):
            for b in range(a + 1, cfg["k"]):
                cl.append((f"no_collision_{a}_{b}", z3.Implies(z3.And(parts[a].present, parts[b].present), zr(parts[a].row["object_id"]) != zr(parts[b].row["object_id"])), ()))
        for j in range(cfg["k"]):
            cl.append((f"input_{j}_other_fields_unchanged", _unchanged(parts[j], old[j], [c for c in MOTL_COLS if c not in ("object_id", "subtomo_id")]), ()))
            cl.append((f"frame.input_{j}_untouched", _unchanged(inp["ms"][j].df, old[j]), ()))
        pos = frames.RowPos(out.space).val.t
        cl.append(("subtomo_id_is_position_plus_1", zr(out.row["subtomo_id"]) == z3.ToReal(pos) + 1, ()))
        cl.append(("row_count_is_sum", out.space.n.t == sum((p.space.n.t for p in parts), z3.IntVal(0)), ()))
        return cl


class RenumberParticles(Contract):
    prop = "C08"
    module = "cryomotl"
    qual = "Motl.renumber_particles"

    def bind(self, cx, cfg):
        it = common.motl_interp()
        df = common.fresh_motl_frame(angles=False)
        me = common.motl_obj(it, df)
        return (lambda: it.function("Motl.renumber_particles").bind(me)()), {"me": me, "old": common.old_row()}

    def post(self, cx, cfg, inp, res):
        out, old = inp["me"].df, inp["old"]
        pos = frames.RowPos(out.space).val.t
        return [("schema_20_fields", _schema(out)), ("ids_1_to_N", zr(out.row["subtomo_id"]) == z3.ToReal(pos) + 1, ()),
                ("other_fields_unchanged", _unchanged(out, old, [c for c in MOTL_COLS if c != "subtomo_id"]), ()), ("rows_kept", z3.simplify(out.present) == z3.BoolVal(True), ())]


# ---------------------------------------------------------------------------------------------------------------------------------
# renumber_objects_sequentially: groupby("tomo_id").apply(helper) with a counter carried from group to group (nonlocal).  Verified as a fold over
# the groups in ascending key order by an inductive invariant; the helper is executed from the real AST on one arbitrary group.


class _SeqTable(frames._Generic):
    """self.df as position functions: tomo(i), obj(i) for rows 0 <= i < N (the other 18 fields are never touched: only object_id is stored to)"""

    def __init__(self):
        self.N = z3.Int("N_rows")
        ctx().assume(self.N >= 0)
        self.tomo = z3.Function("tomo_of", z3.IntSort(), z3.RealSort())
        self.obj = z3.Function("object_of", z3.IntSort(), z3.RealSort())
        self.columns = list(MOTL_COLS)
        self.log = []

    def reset_index(self, drop=False, **k):
        if not drop:
            raise sym.Unsupported("reset_index(drop=False)")
        self.log.append("reset_index")
        return self

    def groupby(self, by, group_keys=True, sort=True, **k):
        if by != "tomo_id" or k or not sort:
            raise sym.Unsupported("groupby form")
        self.log.append(("groupby", by, group_keys))
        return _GroupBy(self)


class _GroupBy:
    """assumed contract of DataFrame.groupby(key, sort=True)[all columns].apply(f): f is called once per distinct key in ascending key order with the
    rows of that key (in table order); the result holds the rows of the returned groups, every row exactly once"""

    def __init__(self, t):
        self.t = t

    def __getitem__(self, cols):
        if list(cols) != list(MOTL_COLS):
            raise sym.Unsupported("column selection of the grouped table")
        return self

    def apply(self, fn, *a, **k):
        from vfw.interp import IFunc
        cx, t = ctx(), self.t
        if a or k or not isinstance(fn, IFunc) or fn.closure is None or not fn.closure.has("start_number"):
            raise sym.Unsupported("apply: helper form")
        g = z3.Real("group_key")
        S0 = fn.closure.get("start_number")
        holder = cx.__dict__.setdefault("renumber", {})
        holder["counter_at_entry"] = S0
        start0 = zr(S0)
        cg = z3.Int("numbers_given_so_far")                                    # the counter is start + cg
        Sg = start0 + z3.ToReal(cg)
        nid = z3.Function("offset_so_far", z3.IntSort(), z3.IntSort())        # ghost: row of an earlier group -> its number minus start
        wit = z3.Function("row_with_offset", z3.IntSort(), z3.IntSort())      # ghost: offset -> a row of an earlier group carrying it
        newid = lambda x: start0 + z3.ToReal(nid(x))
        r, r2, c = z3.Int("r!g"), z3.Int("r2!g"), z3.Int("c!g")
        rows = lambda x: z3.And(x >= 0, x < t.N)
        earlier = lambda x: z3.And(rows(x), t.tomo(x) < g)
        # the invariant of the fold when the helper is entered for group g (hypothesis of the arbitrary iteration): the numbers given so far are
        # start + 0 .. start + cg - 1, each used, and two rows share a number exactly when they share tomogram and object
        inv = [cg >= 0,
               z3.ForAll([r], z3.Implies(earlier(r), z3.And(nid(r) >= 0, nid(r) < cg))),
               z3.ForAll([r, r2], z3.Implies(z3.And(earlier(r), earlier(r2)), (nid(r) == nid(r2)) == z3.And(t.tomo(r) == t.tomo(r2), t.obj(r) == t.obj(r2)))),
               z3.ForAll([c], z3.Implies(z3.And(c >= 0, c < cg), z3.And(earlier(wit(c)), nid(wit(c)) == c)))]
        for f in inv:
            cx.assume(f)
        some = z3.Int("some_row_of_group")
        cx.assume(z3.And(rows(some), t.tomo(some) == g))  # groups are non-empty
        _set_closure(fn.closure, "start_number", SV(Sg))
        grp = _Group(t, g)
        out = fn(grp)
        S1 = fn.closure.get("start_number")
        holder.update(g=g, Sg=Sg, cg=cg, start0=start0, nid=nid, wit=wit, grp=grp, returned=out, S1=S1, t=t)
        return _Renumbered(t, holder)


def _set_closure(env, k, v):
    e = env
    while e is not None:
        if k in e.vars:
            e.vars[k] = v
            return
        e = e.parent


class _Renumbered:
    def __init__(self, t, holder):
        self.t, self.holder = t, holder


class _Group(frames._Generic):
    """the rows of one group (tomo_id == key), in table order"""

    def __init__(self, t, g):
        self.t, self.g = t, g
        self.newobj = None

    def inside(self, x):
        return z3.And(x >= 0, x < self.t.N, self.t.tomo(x) == self.g)

    def __getitem__(self, c):
        if c != "object_id":
            raise sym.Unsupported("group column other than object_id")
        return _GCol(self, self.newobj if self.newobj is not None else (lambda i: self.t.obj(i)))

    def __setitem__(self, c, v):
        if c != "object_id" or not isinstance(v, _GCol) or v.grp is not self:
            raise sym.Unsupported("store into the group")
        self.newobj = v.f


class _GCol(frames._Generic):
    def __init__(self, grp, f):
        self.grp, self.f = grp, f

    def factorize(self, *a, **k):
        """assumed contract of pandas factorize: integer codes 0..K-1 numbered by first appearance -- equal values get equal codes, different values
        different codes, every code below K is used"""
        if a or k:
            raise sym.Unsupported("factorize options")
        cx, grp = ctx(), self.grp
        code = z3.Function("factorize_code", z3.IntSort(), z3.IntSort())
        cw = z3.Function("row_with_code", z3.IntSort(), z3.IntSort())
        K = z3.Int("n_distinct_in_group")
        i, j, c = z3.Int("i!f"), z3.Int("j!f"), z3.Int("c!f")
        cx.axiom("pandas factorize: codes 0..K-1, equal codes exactly for equal values, every code used",
                 z3.And(K >= 1,
                        z3.ForAll([i], z3.Implies(grp.inside(i), z3.And(code(i) >= 0, code(i) < K))),
                        z3.ForAll([i, j], z3.Implies(z3.And(grp.inside(i), grp.inside(j)), (code(i) == code(j)) == (self.f(i) == self.f(j)))),
                        z3.ForAll([c], z3.Implies(z3.And(c >= 0, c < K), z3.And(grp.inside(cw(c)), code(cw(c)) == c)))))
        ctx().__dict__.setdefault("renumber", {}).update(code=code, cw=cw, K=K)
        return (_GCol(grp, lambda i: z3.ToReal(code(i))), "uniques")

    def _arith(self, o, op):
        ot = zr(o)
        return _GCol(self.grp, lambda i, f=self.f: op(f(i), ot))

    def __add__(self, o): return self._arith(o, lambda a, b: a + b)
    def __radd__(self, o): return self._arith(o, lambda a, b: a + b)
    def __sub__(self, o): return self._arith(o, lambda a, b: a - b)

    def max(self):
        cx, grp = ctx(), self.grp
        M, w, i = cx.fresh("group_max", "Real"), cx.fresh("group_max_row", "Int"), z3.Int("i!m")
        cx.axiom("pandas Series.max over a non-empty group is attained by one of its rows and dominates all of them",
                 z3.And(grp.inside(w), self.f(w) == M, z3.ForAll([i], z3.Implies(grp.inside(i), self.f(i) <= M))))
        return SV(M)

    @property
    def iloc(self):
        col = self

        class _IL:
            def __getitem__(self, k):
                if k != -1:
                    raise sym.Unsupported("iloc position in a group column")
                cx, grp = ctx(), col.grp
                L, i = cx.fresh("group_last_row", "Int"), z3.Int("i!l")
                cx.axiom("the last row of a group is one of its rows and no row of the group comes after it", z3.And(grp.inside(L), z3.ForAll([i], z3.Implies(grp.inside(i), i <= L))))
                return SV(col.f(L))
        return _IL()


class RenumberObjects(Contract):
    """renumber_objects_sequentially: the fold over the tomograms (ascending) keeps the invariant  "the numbers given so far are start .. counter-1, each
    used, and two rows share a number exactly when they share tomogram and object"; at the end this is the property's clause for the whole list"""
    prop = "C08"
    module = "cryomotl"
    qual = "Motl.renumber_objects_sequentially"

    def bind(self, cx, cfg):
        it = common.motl_interp()
        t = _SeqTable()
        me = common.motl_obj(it, t)
        start = SV(z3.Int("starting_number"))
        return (lambda: it.function("Motl.renumber_objects_sequentially").bind(me)(start)), {"me": me, "t": t, "start": start}

    def post(self, cx, cfg, inp, res):
        h = getattr(cx, "renumber", {})
        out = inp["me"].df
        cl = [("table_replaced_by_the_result_of_the_grouped_apply", z3.BoolVal(isinstance(out, _Renumbered) and out.t is inp["t"])),
              ("grouped_by_tomogram_without_group_keys_after_an_index_reset", z3.BoolVal(inp["t"].log == ["reset_index", ("groupby", "tomo_id", False)]))]
        if not isinstance(out, _Renumbered) or "S1" not in h:
            return cl
        t, g, cg, start0, nid, wit, grp = h["t"], h["g"], h["cg"], h["start0"], h["nid"], h["wit"], h["grp"]
        cl.append(("counter_starts_at_the_requested_number", zr(h["counter_at_entry"]) == zr(inp["start"]), ()))
        cl.append(("helper_returns_its_group_with_only_the_object_number_replaced", z3.BoolVal(h["returned"] is grp and grp.newobj is not None)))
        code, cw = h.get("code"), h.get("cw")
        if grp.newobj is None or code is None:
            return cl
        S1 = zr(h["S1"])
        c1 = z3.Int("numbers_given_after_this_group")
        hy = [S1 == start0 + z3.ToReal(c1)]                                    # c1 names the counter's offset after the group (first clause: it is an integer)
        off = lambda x: z3.If(t.tomo(x) == g, code(x) + cg, nid(x))            # ghost after this group: offsets of the rows of all groups up to g
        new = lambda x: z3.If(t.tomo(x) == g, grp.newobj(x), start0 + z3.ToReal(nid(x)))
        upto = lambda x: z3.And(x >= 0, x < t.N, t.tomo(x) <= g)
        r, r2, c = z3.Int("r!p"), z3.Int("r2!p"), z3.Int("c!p")
        w2 = lambda k: z3.If(k < cg, wit(k), cw(k - cg))
        cl += [("inv.preserve.counter_is_start_plus_a_natural_number", z3.And(S1 >= start0, z3.IsInt(S1 - start0)), ()),
               ("inv.preserve.number_of_a_row_is_start_plus_its_offset_below_the_counter", z3.ForAll([r], z3.Implies(upto(r), z3.And(new(r) == start0 + z3.ToReal(off(r)), off(r) >= 0, off(r) < c1))), (), hy),
               ("inv.preserve.same_number_iff_same_tomogram_and_object",
                z3.ForAll([r, r2], z3.Implies(z3.And(upto(r), upto(r2)), (off(r) == off(r2)) == z3.And(t.tomo(r) == t.tomo(r2), t.obj(r) == t.obj(r2)))), (), hy),
               ("inv.preserve.every_number_below_the_counter_is_used", z3.ForAll([c], z3.Implies(z3.And(c >= 0, c < c1), z3.And(upto(w2(c)), off(w2(c)) == c))), (), hy)]
        return cl

    def replay(self, clause, model, cfg):
        from rtc import c08 as r
        return r.replay_renumber_objects()


class SplitByFeature(Contract):
    """split_by_feature(field): one list per distinct value of the field; the generic row lies in the piece of its own value (and, the pieces being
    selected by equality with pairwise different values, in no other), unchanged, under the 20-field schema"""
    prop = "C08"
    module = "cryomotl"
    qual = "Motl.split_by_feature"
    configs = [{"feature": "tomo_id"}, {"feature": "object_id"}, {"feature": "class"}]

    def cfg_name(self, cfg):
        return cfg["feature"]

    def bind(self, cx, cfg):
        it = common.motl_interp()
        df = common.fresh_motl_frame(angles=False)
        me = common.motl_obj(it, df)
        return (lambda: it.function("Motl.split_by_feature").bind(me)(cfg["feature"])), {"me": me, "old": common.old_row()}

    def post(self, cx, cfg, inp, res):
        old = inp["old"]
        ok = isinstance(res, list) and len(res) == 1 and hasattr(res[0], "df") and isinstance(res[0].df, frames.GFrame)
        cl = [("one_piece_per_distinct_value", z3.BoolVal(bool(ok)))]
        if not ok:
            return cl
        out = res[0].df
        return cl + [("schema_20_fields", _schema(out)), ("row_lies_in_the_piece_of_its_own_value", z3.simplify(out.present) == z3.BoolVal(True), ()),
                     ("rows_unchanged", _unchanged(out, old), ()), ("frame.self_untouched", _unchanged(inp["me"].df, old), ())]


class _SortTable:
    """a table as position functions (row position -> cell), with the two pandas operations Motl.drop_duplicates uses, under their assumed contracts:
    sort_values(by=[k1, k2], ascending=[a1, a2]) -- a permutation of the rows, lexicographically ordered by (k1, k2) in the given directions;
    drop_duplicates(subset=k) -- keeps, in order, exactly the rows that are the FIRST occurrence of their value of k"""
    n_made = 0

    def __init__(self, cols, n, src=None, kept=None, history=()):
        self.cols, self.n, self.src, self.kept, self.history = cols, n, src, kept, list(history)
        self.reset = False

    @staticmethod
    def fresh(names, prefix):
        n = z3.Int(f"N_{prefix}")
        ctx().assume(n >= 0)
        return _SortTable({c: z3.Function(f"{prefix}{c}", z3.IntSort(), z3.RealSort()) for c in names}, n)

    def sort_values(self, by=None, ascending=True, **k):
        if not (isinstance(by, list) and len(by) == 2 and isinstance(ascending, list) and len(ascending) == 2 and all(isinstance(a, bool) for a in ascending)) or k:
            raise sym.Unsupported("sort_values form")
        cx = ctx()
        _SortTable.n_made += 1
        u = _SortTable.n_made
        pi = z3.Function(f"sorted_from!{u}", z3.IntSort(), z3.IntSort())
        inv = z3.Function(f"sorted_to!{u}", z3.IntSort(), z3.IntSort())
        n = self.n
        a, b = z3.Ints(f"a!s{u} b!s{u}")
        k1, k2 = (lambda i: self.cols[by[0]](pi(i))), (lambda i: self.cols[by[1]](pi(i)))
        lt = lambda x, y, asc: (x < y) if asc else (x > y)
        cx.axiom("DataFrame.sort_values(by=[k1,k2], ascending=[a1,a2]): a permutation of the rows in lexicographic order",
                 z3.And(z3.ForAll([a], z3.Implies(z3.And(a >= 0, a < n), z3.And(pi(a) >= 0, pi(a) < n, inv(pi(a)) == a, inv(a) >= 0, inv(a) < n, pi(inv(a)) == a))),
                        z3.ForAll([a, b], z3.Implies(z3.And(a >= 0, a < b, b < n), z3.Or(lt(k1(a), k1(b), ascending[0]), z3.And(k1(a) == k1(b), z3.Or(lt(k2(a), k2(b), ascending[1]), k2(a) == k2(b))))))))
        cols = {c: (lambda i, g=g: g(pi(i))) for c, g in self.cols.items()}
        return _SortTable(cols, n, src=self, history=self.history + [("sort", by, ascending, pi, inv)])

    def drop_duplicates(self, subset=None, **k):
        if not isinstance(subset, str) or k:
            raise sym.Unsupported("drop_duplicates form")
        key = self.cols[subset]
        n = self.n
        j = z3.Int(f"j!d{len(self.history)}")
        kept = lambda i: z3.And(i >= 0, i < n, z3.ForAll([j], z3.Implies(z3.And(j >= 0, j < i), key(j) != key(i))))
        first = z3.Function(f"first_occurrence!{len(self.history)}", z3.IntSort(), z3.IntSort())
        q = z3.Int(f"q!d{len(self.history)}")
        ctx().axiom("drop_duplicates(subset=k): every row has a first occurrence of its value of k, which is kept (well-ordering of the row positions)",
                    z3.ForAll([q], z3.Implies(z3.And(q >= 0, q < n), z3.And(first(q) >= 0, first(q) <= q, key(first(q)) == key(q), kept(first(q))))))
        r = _SortTable(self.cols, n, src=self, kept=kept, history=self.history + [("drop", subset)])
        r.first = first
        return r

    def reset_index(self, inplace=False, drop=False, **k):
        self.reset = bool(inplace and drop)


class DropDuplicates(Contract):
    """Motl.drop_duplicates(): exactly one row per id survives, it is a best-scoring row of that id (highest score by default, lowest when
    ascending is requested), rows are otherwise unchanged, index reset"""
    prop = "C08"
    module = "cryomotl"
    qual = "Motl.drop_duplicates"
    configs = [{"asc": False, "dup": "subtomo_id", "dec": "score"}, {"asc": True, "dup": "geom3", "dec": "geom1"}]

    def cfg_name(self, cfg):
        return f"{cfg['dup']} by {cfg['dec']},ascending={cfg['asc']}"

    def bind(self, cx, cfg):
        it = common.motl_interp()
        T = _SortTable.fresh(MOTL_COLS, "dd_")
        me = misc.SelfObj(it, "Motl", df=T)
        f = it.function("Motl.drop_duplicates").bind(me)
        kw = {} if (cfg["dup"], cfg["dec"], cfg["asc"]) == ("subtomo_id", "score", False) else {"duplicates_column": cfg["dup"], "decision_column": cfg["dec"], "decision_sort_ascending": cfg["asc"]}
        return (lambda: f(**kw)), {"T": T, "me": me}

    def post(self, cx, cfg, inp, res):
        T, out = inp["T"], inp["me"].df
        ok = isinstance(out, _SortTable) and out.kept is not None and [h[0] for h in out.history] == ["sort", "drop"] and out.reset
        cl = [("sorted_then_first_occurrences_kept_index_reset", z3.BoolVal(bool(ok)))]
        if not ok:
            return cl
        _, by, asc, pi, inv = out.history[0]
        n = T.n
        S = out.src                                   # the sorted table: the survivors are rows of it
        ids, scs = S.cols[cfg["dup"]], S.cols[cfg["dec"]]
        p_, q_ = z3.Ints("p!dd q!dd")
        rng = lambda x: z3.And(x >= 0, x < n)
        better = (lambda x, y: scs(x) <= scs(y)) if cfg["asc"] else (lambda x, y: scs(x) >= scs(y))
        cl += [("survivor_is_a_best_scoring_row_of_its_id", z3.ForAll([p_, q_], z3.Implies(z3.And(rng(p_), rng(q_), out.kept(p_), ids(q_) == ids(p_)), better(p_, q_))), ()),
               ("no_id_survives_twice", z3.ForAll([p_, q_], z3.Implies(z3.And(rng(p_), rng(q_), p_ != q_, out.kept(p_), out.kept(q_)), ids(p_) != ids(q_))), ()),
               ("every_id_keeps_a_row", z3.ForAll([q_], z3.Implies(rng(q_), z3.And(rng(out.first(q_)), out.kept(out.first(q_)), ids(out.first(q_)) == ids(q_)))), ()),
               ("rows_are_unchanged_rows_of_the_list_each_used_once", z3.ForAll([p_], z3.Implies(rng(p_), z3.And(rng(pi(p_)), inv(pi(p_)) == p_, *[S.cols[c](p_) == T.cols[c](pi(p_)) for c in MOTL_COLS]))), ())]
        return cl

    def replay(self, clause, model, cfg):
        return {"reproduced": None, "why": "decided by the bounded histories"}


class MergeAndDropDuplicates(Contract):
    """Motl.merge_and_drop_duplicates (caller verified against the callee contract DropDuplicates above): the table handed to drop_duplicates is the
    concatenation of ALL rows of all inputs, each with every field but object_id unchanged (so id and score -- what the callee decides on -- are the
    inputs' own); drop_duplicates is called exactly once, with its default arguments (one row per subtomo_id, highest score), on the object that is
    returned; the inputs are not modified.  Together with DropDuplicates' postcondition: one best-scoring row per id over the union of the inputs."""
    prop = "C08"
    module = "cryomotl"
    qual = "Motl.merge_and_drop_duplicates"
    configs = [{"k": 2}, {"k": 3}]

    def cfg_name(self, cfg):
        return f"{cfg['k']}lists"

    def bind(self, cx, cfg):
        calls = []

        def dd(self_, *a, **k):
            calls.append((self_, self_.df, a, k))
        it = common.motl_interp(contracts={"Motl.drop_duplicates": dd})
        ds = [common.fresh_motl_frame(prefix=f"l{j}_", angles=False) for j in range(cfg["k"])]
        for d in ds:
            cx.assume(d.space.n.t >= 1)
        ms = [common.motl_obj(it, d) for d in ds]
        f = it.function("Motl.merge_and_drop_duplicates").bind(it.globals["Motl"])

        def thunk():
            calls.clear()
            r = f(list(ms))
            return {"ret": r, "calls": list(calls)}
        return thunk, {"ms": ms, "k": cfg["k"]}

    def post(self, cx, cfg, inp, res):
        calls = res["calls"]
        one = len(calls) == 1 and calls[0][2] == () and calls[0][3] == {} and calls[0][0] is res["ret"]
        cl = [("drop_duplicates_called_once_with_defaults_on_the_returned_list", z3.BoolVal(bool(one)))]
        if not one:
            return cl
        tab = calls[0][1]
        parts = getattr(tab, "parts", None)
        # create_empty_motl_df() contributes an empty leading part
        parts = [p for p in (parts or []) if not (isinstance(getattr(p.space.n, "t", None), z3.ExprRef) and z3.is_int_value(p.space.n.t) and p.space.n.t.as_long() == 0)] if parts is not None else None
        if parts is None or len(parts) != cfg["k"]:
            return cl + [("deduplicated_table_is_concatenation_of_all_inputs", z3.BoolVal(False))]
        old = [common.old_row(f"l{j}_") for j in range(cfg["k"])]
        for j in range(cfg["k"]):
            cl.append((f"input_{j}_rows_all_present", z3.And(parts[j].space.n.t == inp["ms"][j].df.space.n.t, parts[j].present if isinstance(parts[j].present, z3.ExprRef) else z3.BoolVal(bool(parts[j].present))), ()))
            cl.append((f"input_{j}_fields_but_object_id_unchanged", _unchanged(parts[j], old[j], [c for c in MOTL_COLS if c != "object_id"]), ()))
            cl.append((f"frame.input_{j}_untouched", _unchanged(inp["ms"][j].df, old[j]), ()))
        cl.append(("returned_table_is_the_deduplicated_one", z3.BoolVal(res["ret"].df is tab or getattr(res["ret"].df, "parts", None) is getattr(tab, "parts", None))))
        return cl

    def replay(self, clause, model, cfg):
        return {"reproduced": None, "why": "decided by the bounded histories"}


CONTRACTS = [GetSubset, RemoveFeature, Intersection, MergeAndRenumber, RenumberParticles, RenumberObjects, SplitByFeature, DropDuplicates, MergeAndDropDuplicates]
LEVEL = "proof"
EXPLANATION = ("Membership (with multiplicity), row preservation and the 20-field schema are postconditions of get_motl_subset, remove_feature, get_motl_intersection, "
               "merge_and_renumber (2 and 3 inputs: object numbers of different inputs differ for arbitrary rows, ids = position+1) and renumber_particles, proved on generic rows "
               "of the real AST; selection/removal complementarity as a lemma; since every operation's contract has wf(old) => wf(new) the schema holds after any history. "
               "renumber_objects_sequentially: the helper applied per tomogram is executed from the real AST on one arbitrary group; the fold over the tomograms in ascending order keeps the invariant "
               "'the numbers given so far are start .. counter-1, each of them used, and two rows share a number exactly when they share tomogram and object' (four preservation obligations with ghost offset / "
               "witness functions; the counter starts at the requested number), which after the last tomogram is the property's clause for the whole list. "
               "merge_and_drop_duplicates: caller verified against the drop_duplicates contract (concatenation of all inputs, one call with defaults). Order inside results: bounded histories only.")
ASSUMPTIONS = ["pandas contract: inner merge on a shared column repeats a left row once per matching right row, Series.drop_duplicates keeps one row per value; concat keeps all rows; min/max of a column bound every row",
               "requires of get_motl_subset: requested values distinct (duplicates would duplicate rows, as documented by the loop)",
               "pandas contract for renumber_objects_sequentially: groupby(key, sort=True)[all columns].apply(f) calls f once per distinct key in ascending order with that key's rows and returns the rows of the returned "
               "groups, every row once; Series.factorize gives codes 0..K-1 with equal codes exactly for equal values and every code used; Series.max is attained and dominates; the other 18 fields are untouched "
               "because the group model admits a store to object_id only"]


def lemmas(ck):
    a, b = z3.Bools("present matches")
    ck.lemma("select_remove_complementary", [], z3.And(z3.Or(z3.And(a, b), z3.And(a, z3.Not(b))) == a, z3.Not(z3.And(z3.And(a, b), z3.And(a, z3.Not(b))))), tactics=(),
             note="subset(v) and remove(v) partition the present rows: member_iff_matching and member_iff_not_matching")


def run(ck):
    for C in CONTRACTS:
        ck.run_contract(C())
    lemmas(ck)
    from rtc import c08 as r
    n = 120 if ck.tier == "quick" else 3000
    ck.bounded_run("histories", r.gen_cases(ck.seed, n, 6 if ck.tier == "quick" else 10), r.run_case, ref="rtc.c08:run_case",
                   rule="seeded lists (0..200 particles, repeated and missing values, unsorted ids) x histories of operations (subset/remove/split/intersection/drop-duplicates/merge-and-renumber/"
                        "merge-and-drop-duplicates/renumber particles/renumber objects) compared step by step with a pure-Python row-set model; distinct = (case, size, operation sequence)",
                   bound=f"{n} histories, <= {6 if ck.tier == 'quick' else 10} operations, <= 200 particles")
