"""C14 -- map rotation / windowing / symmetrisation: the affine matrix handed to scipy (active rotation about floor(N/2), same
convention as particle orientations), window arithmetic of get_start_end_indices / extract_subvolume / crop / pad, angle list and
accumulator of symmetrize_volume (deductive); interpolation exactness, placement, invariance of results (bounded)."""
import z3
from vfw import sym, theory
from vfw.sym import SV, SB, ctx, Unsupported
from vfw.engine import Contract
from vfw.interp import Interp
from vfw.models import voxels, npm, frames, rot as rotm
from vfw.models.voxels import V
from . import common
from .common import zr
from .c13 import CryomapStub  # noqa: F401


class Affine:
    """assumed contract of scipy.ndimage.affine_transform(input, matrix (4x4 homogeneous), output=...): output[o] =
    interpolate(input, M[:3,:3] o + M[:3,3]); exact at grid points inside the array for every spline order"""
    calls = []

    @staticmethod
    def affine_transform(input=None, matrix=None, output=None, order=3, **k):
        Affine.calls.append({"input": input, "matrix": npm.obj(matrix), "output": output, "order": order})
        if isinstance(output, voxels.VArr):
            f = z3.Function(f"interpolated_{len(Affine.calls)}", z3.IntSort(), z3.IntSort(), z3.IntSort(), z3.RealSort())
            output.elem = SV(f(V(0), V(1), V(2)))
        return output


def _interp(extra=None, contracts=None):
    g = common.base_globals()
    g.update({"affine_transform": Affine.affine_transform, "srot": rotm.Rot, "fft": voxels.FFT})
    from .c12 import CryomaskContract
    it = Interp("cryomap", g, contracts=contracts or {})
    cm = common.mask_interp()
    class Cryomask:
        get_correct_format = staticmethod(cm.function("get_correct_format"))
    it.globals["cryomask"] = Cryomask
    if extra:
        it.globals.update(extra)
    Affine.calls = []
    return it


def _vol(cx, name="vol", dtype="float64"):
    size = [SV(z3.Int(n)) for n in ("X", "Y", "Z")]
    for s in size:
        cx.assume(s.t >= 1)
    return voxels.input_array(name, list(size), dtype=dtype), size


class Rotate(Contract):
    prop = "C14"
    module = "cryomap"
    qual = "rotate"
    configs = [{"how": "angles"}, {"how": "rotation,transpose"}, {"how": "rotation"}, {"how": "nothing"}]

    def cfg_name(self, cfg):
        return cfg["how"]

    def bind(self, cx, cfg):
        it = _interp()
        x, size = _vol(cx)
        f = it.function("rotate")
        if cfg["how"] == "angles":
            ang = [theory.angle_input(n) for n in ("phi", "theta", "psi")]
            R = common.R_zxz(*[common.cs_of(a) for a in ang])
            return (lambda: f(x, rotation_angles=list(ang))), {"x": x, "size": size, "R": R, "orig": x.elem.t}
        if cfg["how"] == "nothing":
            return (lambda: f(x)), {"x": x, "size": size, "R": None, "orig": x.elem.t}
        r, m = rotm.opaque_rot("Q")
        return (lambda: f(x, rotation=r, transpose_rotation=(cfg["how"] == "rotation,transpose"))), {"x": x, "size": size, "R": m, "orig": x.elem.t}

    def post(self, cx, cfg, inp, res):
        if cfg["how"] == "nothing":
            return [("missing_rotation_rejected", z3.BoolVal(False))]
        calls = Affine.calls
        cl = [("one_affine_transform_of_the_input_into_the_result", z3.BoolVal(len(calls) == 1 and calls[0]["output"] is res and isinstance(calls[0]["input"], voxels.VArr) and calls[0]["input"].elem.t.eq(inp["orig"])))]
        if len(calls) != 1:
            return cl
        M, size, R = calls[0]["matrix"], inp["size"], inp["R"]
        c = [z3.ToReal(s.t / 2) for s in size]  # box centre floor(N/2)
        o = [z3.Real(f"o{a}") for a in range(3)]
        # scipy samples the input at  M o + offset.  Active convention: density at offset v from the centre moves to offset R v, i.e.
        # out[o] = in(c + R^T (o - c)).   transpose_rotation=False gives the inverse map (stated, not claimed by the property).
        Rt = [[R[j][i] for j in range(3)] for i in range(3)] if cfg["how"] != "rotation" else R
        for i in range(3):
            src = sum(sym.real(sym.to_z3(M[i, j])) * o[j] for j in range(3)) + sym.real(sym.to_z3(M[i, 3]))
            exp = c[i] + sum(Rt[i][j] * (o[j] - c[j]) for j in range(3))
            cl.append((f"sampling_point_is_centre_plus_Rt_offset_{i}", src == exp, ("poly", "linear")))
        cl.append(("homogeneous_last_row", z3.And(*[sym.real(sym.to_z3(M[3, j])) == (1 if j == 3 else 0) for j in range(4)]), ("poly",)))
        cl.append(("result_shape_is_input_shape", z3.And(*[voxels._size_t(a) == b.t for a, b in zip(res.shape_, size)]), ()))
        cl.append(("frame.input_not_mutated", z3.BoolVal(bool(inp["x"].elem.t.eq(inp["orig"])))))
        return cl

    def raises(self, cx, cfg, inp, exc):
        return z3.BoolVal(cfg["how"] == "nothing" and exc.exc_type == "ValueError")

    def replay(self, clause, model, cfg):
        from rtc import c14 as r
        return r.replay_rotate()


class StartEnd(Contract):
    prop = "C14"
    module = "cryomap"
    qual = "get_start_end_indices"
    configs = [{"coord": "int"}, {"coord": "real"}]

    def cfg_name(self, cfg):
        return f"coord={cfg['coord']}"

    def bind(self, cx, cfg):
        it = _interp()
        Vs = [SV(z3.Int(f"V{a}sz")) for a in "xyz"]
        Ss = [SV(z3.Int(f"S{a}sz")) for a in "xyz"]
        co = [SV(z3.Int(f"c{a}")) if cfg["coord"] == "int" else SV(z3.Real(f"c{a}")) for a in "xyz"]
        for v, s in zip(Vs, Ss):
            cx.assume(z3.And(v.t >= 1, s.t >= 1))
        f = it.function("get_start_end_indices")
        return (lambda: f(npm.obj(list(co)), tuple(Vs), tuple(Ss))), {"V": Vs, "S": Ss, "c": co}

    def post(self, cx, cfg, inp, res):
        vs, ve, ss, se = res
        cl = []
        for a in range(3):
            Vn, Sn, c = inp["V"][a].t, inp["S"][a].t, sym.real(sym.to_z3(inp["c"][a]))
            a0 = z3.ToInt(c - z3.ToReal(Sn) / 2)  # floor(c - S/2): volume index of subvolume voxel 0
            v0, v1, s0, s1 = (sym.to_z3(x[a]) for x in (vs, ve, ss, se))
            meets = z3.And(a0 < Vn, a0 + Sn > 0)
            cl.append((f"axis{a}_volume_window_inside_volume", z3.And(v0 >= 0, v0 <= v1, v1 <= Vn), ()))
            cl.append((f"axis{a}_subvolume_window_inside_subvolume", z3.And(s0 >= 0, s0 <= s1, s1 <= Sn), ()))
            cl.append((f"axis{a}_windows_have_equal_length_when_they_meet", z3.Implies(meets, v1 - v0 == s1 - s0), ()))
            cl.append((f"axis{a}_offset_is_floor_c_minus_half_size", z3.Implies(meets, z3.And(v0 - s0 == a0, v0 == z3.If(a0 > 0, a0, 0), v1 == z3.If(a0 + Sn < Vn, a0 + Sn, Vn))), ()))
            cl.append((f"axis{a}_empty_when_window_misses_volume", z3.Implies(z3.Not(meets), z3.Or(v0 == v1, s0 == s1)), ()))
        return cl

    def replay(self, clause, model, cfg):
        from rtc import c14 as r
        return r.replay_window(model, vtype={"float64": 0, "int16": 1}.get((cfg or {}).get("dtype")))


class ExtractSubvolume(Contract):
    prop = "C14"
    module = "cryomap"
    qual = "extract_subvolume"
    # the volume's data type is a configuration: the fill value is the volume mean as a real number also for integer-typed tomograms / masks
    configs = [{"dtype": "float64"}, {"dtype": "int16"}]

    def cfg_name(self, cfg):
        return f"volume_dtype={cfg['dtype']}"

    def bind(self, cx, cfg):
        it = _interp()
        x, size = _vol(cx, dtype=cfg["dtype"])
        Ss = [SV(z3.Int(f"S{a}sz")) for a in "xyz"]
        co = [SV(z3.Int(f"c{a}")) for a in "xyz"]
        for s in Ss:
            cx.assume(s.t >= 1)
        f = it.function("extract_subvolume")
        return (lambda: f(x, npm.obj(list(co)), tuple(Ss))), {"x": x, "size": size, "S": Ss, "c": co, "orig": x.elem.t}

    def post(self, cx, cfg, inp, res):
        x, size, Ss, co = inp["x"], inp["size"], inp["S"], inp["c"]
        hy = [z3.And(V(a) >= 0, V(a) < Ss[a].t) for a in range(3)]
        src = [z3.ToInt(z3.ToReal(co[a].t) - z3.ToReal(Ss[a].t) / 2) + V(a) for a in range(3)]
        inside = z3.And(*[z3.And(src[a] >= 0, src[a] < size[a].t) for a in range(3)])
        mean = voxels.reduce_mean(x).t
        return [("shape_is_requested_window", z3.And(*[voxels._size_t(a) == b.t for a, b in zip(res.shape_, Ss)]), ()),
                ("voxel_is_volume_voxel_at_offset_or_volume_mean", zr(res.elem) == z3.If(inside, x.fn(*src), mean), (), hy),
                ("frame.input_not_mutated", z3.BoolVal(bool(x.elem.t.eq(inp["orig"]))))]

    def replay(self, clause, model, cfg):
        from rtc import c14 as r
        return r.replay_window(model, vtype={"float64": 0, "int16": 1}.get((cfg or {}).get("dtype")))


class Crop(Contract):
    """crop(map, new_size[, crop_coord]): the window of the requested size whose voxel 0 is floor(c - size/2) (c = floor(N/2) by default),
    clipped to the volume; the written file gets that window as float32"""
    prop = "C14"
    module = "cryomap"
    qual = "crop"
    configs = [{"coord": "default"}, {"coord": "given"}, {"coord": "given", "write": True}]

    def cfg_name(self, cfg):
        return f"crop_coord={cfg['coord']}" + (",output_file" if cfg.get("write") else "")

    def bind(self, cx, cfg):
        written = []
        it = _interp(contracts={"write": lambda data, name, **k: written.append((data, name, k)), "read": lambda m, **k: m})
        x, size = _vol(cx)
        Ss = [SV(z3.Int(f"S{a}sz")) for a in "xyz"]
        for s, v in zip(Ss, size):
            cx.assume(z3.And(s.t >= 2, s.t <= v.t, s.t % 2 == 0))  # requires: the new size fits into the map and is even (the property's quantifier: even box sizes)
        co = [SV(z3.Int(f"c{a}")) for a in "xyz"] if cfg["coord"] == "given" else None
        f = it.function("crop")
        kw = {"crop_coord": npm.obj(list(co))} if co else {}
        if cfg.get("write"):
            kw["output_file"] = "out.mrc"
        return (lambda: f(x, npm.obj(list(Ss)), **kw)), {"x": x, "size": size, "S": Ss, "c": co, "orig": x.elem.t, "written": written}

    def post(self, cx, cfg, inp, res):
        x, size, Ss = inp["x"], inp["size"], inp["S"]
        cen = [zr(c) for c in inp["c"]] if inp["c"] else [z3.ToReal(size[a].t / 2) for a in range(3)]
        a0 = [z3.ToInt(cen[a] - z3.ToReal(Ss[a].t) / 2) for a in range(3)]
        v0 = [z3.If(a0[a] > 0, a0[a], 0) for a in range(3)]
        v1 = [z3.If(a0[a] + Ss[a].t < size[a].t, a0[a] + Ss[a].t, size[a].t) for a in range(3)]
        meets = z3.And(*[z3.And(a0[a] < size[a].t, a0[a] + Ss[a].t > 0) for a in range(3)])
        if not isinstance(res, voxels.VArr):
            return [("returns_an_array", z3.BoolVal(False))]
        hy = [meets] + [z3.And(V(a) >= 0, V(a) < v1[a] - v0[a]) for a in range(3)]
        cl = [("window_shape", z3.Implies(meets, z3.And(*[voxels._size_t(res.shape_[a]) == v1[a] - v0[a] for a in range(3)])), ()),
              ("default_window_has_the_requested_size", z3.And(*[voxels._size_t(res.shape_[a]) == Ss[a].t for a in range(3)]), ()) if not inp["c"] else ("given_centre", z3.BoolVal(True)),
              ("voxel_is_map_voxel_at_window_offset", zr(res.elem) == x.fn(*[V(a) + v0[a] for a in range(3)]), (), hy),
              ("frame.input_not_mutated", z3.BoolVal(bool(x.elem.t.eq(inp["orig"]))))]
        if cfg.get("write"):
            w = inp["written"]
            ok = len(w) == 1 and w[0][0] is res and w[0][1] == "out.mrc" and getattr(w[0][2].get("data_type"), "__name__", str(w[0][2].get("data_type"))) in ("single", "float32")
            cl.append(("written_file_holds_the_window_as_float32", z3.BoolVal(bool(ok))))
        return cl

    def replay(self, clause, model, cfg):
        from rtc import c14 as r
        return r.replay_window(model, vtype={"float64": 0, "int16": 1}.get((cfg or {}).get("dtype")))


class _Particles(frames._Generic):
    """motl.get_coordinates() - 1.0 / motl.get_rotations() / motl.df[field] for the generic particle: iterating the coordinates binds the loop
    index to the generic row and the loop value to its (0-based) complete position"""

    def __init__(self, owner, vals):
        self.owner, self.vals = owner, vals

    def __sub__(self, o):
        return _Particles(self.owner, [v - o for v in self.vals])

    def __generic_enumerate__(self):
        return self

    def __generic_for__(self, interp, st, env):
        import ast
        from vfw.models import kernels
        if not (isinstance(st.target, ast.Tuple) and len(st.target.elts) == 2):
            raise Unsupported("particle loop must be `for i, coord in enumerate(coordinates)`")
        iname, cname = st.target.elts[0].id, st.target.elts[1].id

        def bind(e):
            e.vars[iname] = self.owner.idx
            e.vars[cname] = npm.obj(list(self.vals))
            return []
        kernels.generic_body(interp, st, env, bind)


class _PerParticle:
    def __init__(self, owner, what):
        self.owner, self.what = owner, what

    def __getitem__(self, k):
        if not (isinstance(k, SV) and k.t.eq(self.owner.idx.t)):
            raise Unsupported("per-particle value of a particle other than the loop's own")
        return self.what


class _TemplateList(_PerParticle):
    """a Python list with one template per particle: input_object[i] for the loop's own index is that particle's template"""
    def __sym_isinstance__(self, ts):
        return any(t is list for t in ts)


class _MotlModel:
    """assumed contracts of Motl.get_coordinates (x + shift, C05/C09), Motl.get_rotations (the particle's zxz orientation, same convention as
    shift_positions) and column access, restricted to what place_object uses"""

    def __init__(self, cx):
        self.idx = SV(z3.Int("particle_index"))
        self.n = SV(z3.Int("n_particles"))
        cx.assume(z3.And(self.idx.t >= 0, self.idx.t < self.n.t))
        self.pos = [SV(z3.Real(f"pos_{a}")) for a in "xyz"]        # complete position (1-based, as stored in the list)
        self.colour = SV(z3.Real("colour_value"))
        self.R = [[z3.Real(f"R{i}{j}") for j in range(3)] for i in range(3)]
        self.rot = rotm.Rot([self.R], "single")
        self.asked = []
        owner = self

        class DF:
            def __getitem__(self, c):
                owner.asked.append(c)
                return _PerParticle(owner, owner.colour)
        self.df = DF()

    def get_rotations(self):
        return _PerParticle(self, self.rot)

    def get_coordinates(self):
        return _Particles(self, list(self.pos))


class PlaceObject(Contract):
    """place_object, effect of one arbitrary iteration of its loop on the container: the voxels of the window around the particle's 0-based complete
    position where the rotated template exceeds 0.1 take the value of the colouring field, every other voxel keeps its value.  (How successive stamps
    overwrite each other is the loop's order and is checked by the bounded run.)"""
    prop = "C14"
    module = "cryomap"
    qual = "place_object"
    configs = [{"templates": "single"}, {"templates": "list"}]

    def cfg_name(self, cfg):
        return "one template" if cfg["templates"] == "single" else "list of templates (one per particle)"

    def bind(self, cx, cfg):
        calls = []

        def rotate_stub(vol, rotation=None, rotation_angles=None, transpose_rotation=False, **k):
            """callee contract of cryomap.rotate (contract Rotate above): a new array of the template's shape"""
            calls.append({"vol": vol, "rotation": rotation, "transpose": transpose_rotation, "angles": rotation_angles})
            f = z3.Function("rotated_template", z3.IntSort(), z3.IntSort(), z3.IntSort(), z3.RealSort())
            return voxels.VArr(vol.shape_, SV(f(V(0), V(1), V(2))))

        it = _interp(contracts={"rotate": rotate_stub, "read": lambda m, **k: m})
        box, size = _vol(cx, "container")
        ts = [SV(z3.Int(f"T{a}")) for a in "xyz"]
        for t in ts:
            cx.assume(t.t >= 1)
        templ = voxels.input_array("template", list(ts))
        motl = _MotlModel(cx)
        f = it.function("place_object")
        arg = templ if cfg["templates"] == "single" else _TemplateList(motl, templ)
        return (lambda: f(arg, motl, volume=box, feature_to_color="geom3")), {"box": box, "size": size, "templ": templ, "ts": ts, "motl": motl, "calls": calls, "orig": box.elem.t}

    def post(self, cx, cfg, inp, res):
        box, size, ts, motl, calls = inp["box"], inp["size"], inp["ts"], inp["motl"], inp["calls"]
        cl = [("returns_the_container", z3.BoolVal(res is box)),
              ("template_rotated_by_the_particles_orientation_in_the_place_object_call_form",
               z3.BoolVal(len(calls) == 1 and calls[0]["vol"] is inp["templ"] and calls[0]["rotation"] is motl.rot and calls[0]["transpose"] is True and calls[0]["angles"] is None)),
              ("coloured_by_the_requested_field", z3.BoolVal(motl.asked == ["geom3"]))]
        if not isinstance(res, voxels.VArr):
            return cl
        # independent statement: the template's voxel 0 sits at floor(p - 1 - T/2) of the container
        a0 = [z3.ToInt(motl.pos[a].t - 1 - z3.ToReal(ts[a].t) / 2) for a in range(3)]
        t_idx = [V(a) - a0[a] for a in range(3)]
        in_templ = z3.And(*[z3.And(t_idx[a] >= 0, t_idx[a] < ts[a].t) for a in range(3)])
        RT = z3.Function("rotated_template", z3.IntSort(), z3.IntSort(), z3.IntSort(), z3.RealSort())
        stamped = z3.And(in_templ, RT(*t_idx) > z3.RealVal(str(__import__("fractions").Fraction(0.1))))  # the literal 0.1 is identified with its double
        hy = [z3.And(V(a) >= 0, V(a) < size[a].t) for a in range(3)]
        old = z3.substitute(inp["orig"], *[(V(a), V(a)) for a in range(3)])
        cl.append(("voxel_gets_the_colour_where_the_rotated_template_exceeds_the_threshold_and_keeps_its_value_elsewhere",
                   zr(res.elem) == z3.If(stamped, motl.colour.t, old), (), hy))
        cl.append(("container_shape_unchanged", z3.And(*[voxels._size_t(res.shape_[a]) == size[a].t for a in range(3)]), ()))
        return cl

    def replay(self, clause, model, cfg):
        from rtc import c14 as r
        return r.replay_place()


class Pad(Contract):
    prop = "C14"
    module = "cryomap"
    qual = "pad"
    configs = [{"fill": "mean"}, {"fill": "value"}]

    def cfg_name(self, cfg):
        return f"fill={cfg['fill']}"

    def bind(self, cx, cfg):
        it = _interp()
        x, size = _vol(cx)
        ns = [SV(z3.Int(f"N{a}")) for a in "xyz"]
        for n, s in zip(ns, size):
            cx.assume(n.t >= s.t)
        fv = None if cfg["fill"] == "mean" else SV(z3.Real("fill"))
        return (lambda: it.function("pad")(x, tuple(ns), fv)), {"x": x, "size": size, "ns": ns, "fv": fv, "orig": x.elem.t}

    def post(self, cx, cfg, inp, res):
        x, size, ns = inp["x"], inp["size"], inp["ns"]
        hy = [z3.And(V(a) >= 0, V(a) < ns[a].t) for a in range(3)]
        st = [-((-(ns[a].t - size[a].t)) / 2) for a in range(3)]  # ceil((new - old)/2)
        inside = z3.And(*[z3.And(V(a) >= st[a], V(a) < st[a] + size[a].t) for a in range(3)])
        fill = voxels.reduce_mean(x).t if inp["fv"] is None else inp["fv"].t
        return [("padded_shape", z3.And(*[voxels._size_t(a) == b.t for a, b in zip(res.shape_, ns)]), ()),
                ("volume_centred_in_padding", zr(res.elem) == z3.If(inside, x.fn(*[V(a) - st[a] for a in range(3)]), fill), (), hy)]


class Symmetrize(Contract):
    prop = "C14"
    module = "cryomap"
    qual = "symmetrize_volume"
    configs = [{"n": n, "form": f} for n, f in ((2, "str"), (3, "int"), (4, "str"), (5, "int"), (7, "str"), (12, "int"))]

    def cfg_name(self, cfg):
        return f"C{cfg['n']},{cfg['form']}"

    def bind(self, cx, cfg):
        rotations = []

        def rotate_stub(vol, rotation=None, rotation_angles=None, **k):
            """callee contract of cryomap.rotate (this file): a new array, the input rotated about z by the given angle"""
            if rotation_angles is None or len(rotation_angles) != 3:
                raise Unsupported("rotate call form")
            j = len(rotations)
            f = z3.Function(f"copy_{j}", z3.IntSort(), z3.IntSort(), z3.IntSort(), z3.RealSort())
            rotations.append([float(a) for a in rotation_angles])
            return voxels.VArr(vol.shape_, SV(f(V(0), V(1), V(2))))

        it = _interp(contracts={"rotate": rotate_stub})
        x, size = _vol(cx)
        sym_arg = f"C{cfg['n']}" if cfg["form"] == "str" else cfg["n"]
        return (lambda: it.function("symmetrize_volume")(x, sym_arg)), {"x": x, "size": size, "rot": rotations, "orig": x.elem.t}

    def post(self, cx, cfg, inp, res):
        n, rots = cfg["n"], inp["rot"]
        used = sorted(round(a[2] % 360.0, 6) for a in rots)
        want = sorted(round((360.0 * k / n) % 360.0, 6) for k in range(n))
        cl = [("n_copies", z3.BoolVal(len(rots) == n)),
              ("copies_rotated_about_z_only", z3.BoolVal(all(a[0] == 0 and a[1] == 0 for a in rots))),
              ("angles_are_the_multiples_of_360_over_n", z3.BoolVal(used == want))]
        hy = [z3.And(V(a) >= 0, V(a) < inp["size"][a].t) for a in range(3)]
        total = sum((z3.Function(f"copy_{j}", z3.IntSort(), z3.IntSort(), z3.IntSort(), z3.RealSort())(V(0), V(1), V(2)) for j in range(len(rots))), z3.RealVal(0))
        cl.append(("result_is_mean_of_the_copies", zr(res.elem) == total / n, (), hy))
        return cl

    def replay(self, clause, model, cfg):
        from rtc import c14 as r
        return r.replay_symmetrize(cfg["n"])


CONTRACTS = [Rotate, StartEnd, ExtractSubvolume, Crop, PlaceObject, Pad, Symmetrize]
LEVEL = "other"
EXPLANATION = ("Deductive part: the homogeneous matrix handed to scipy.ndimage.affine_transform samples the input at centre + R^T (o - centre) with centre = floor(N/2) and R the same zxz orientation matrix "
               "that shift_positions applies (for rotation_angles and for rotation=..., transpose_rotation=True, the form place_object uses); window arithmetic of get_start_end_indices for integer and "
               "half-integer centres; extract_subvolume = window with volume mean outside; pad centring; crop = the (even-sized) window around the given or default centre, written as float32; place_object: in an arbitrary iteration the voxels of the window around the "
               "particle's 0-based complete position where the rotated template exceeds 0.1 take the colouring value and all others keep theirs, the template being rotated by the particle's orientation in the "
               "call form proved for rotate; symmetrize_volume = mean of n copies rotated by the multiples of 360/n starting from a zero "
               "accumulator. Bounded part: exact voxel permutation for the 24 cube rotations, inverse rotation restores smooth maps, place_object end to end (order of overlapping stamps), invariance and total density of symmetrised maps.")
ASSUMPTIONS = ["scipy.ndimage.affine_transform contract (output[o] = interpolate(input, M o + offset), exact on grid points); numpy matmul / inverse of a translation matrix",
               "face voxels are excluded from the exactness claim (interpolation domain), as in the property"]


def run(ck):
    for C in CONTRACTS:
        ck.run_contract(C())
    from rtc import c14 as r
    n = 40 if ck.tier == "quick" else 500
    ck.bounded_run("rotation_placement", r.gen_cases(ck.seed, n, 9 if ck.tier == "quick" else 16), r.run_case, ref="rtc.c14:run_case",
                   rule="24 cube rotations x all interior voxels of odd and even boxes (exhaustive per box), random rotations of smooth band-limited blobs (inverse restores), windows inside / partly / fully outside, "
                        "particle lists with 1..20 poses for place_object, C_n symmetrisation n = 2..12. distinct = (case, kind, box)",
                   bound=f"{n} cases, boxes 5..{9 if ck.tier == 'quick' else 16}")
