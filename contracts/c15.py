"""C15 -- tilt-stack operations as index maps on a generic-voxel stack: axis-order handling of TiltStack, crop, sort by angle,
remove tilts, flips, what write_out hands to the writer (deductive); binning, even/odd split, merge, file input (bounded)."""
import z3
from vfw import sym
from vfw.sym import SV, SB, ctx, Unsupported
from vfw.engine import Contract
from vfw.interp import Interp
from vfw.models import voxels, misc
from vfw.models.voxels import V
from . import common
from .common import zr

ORDERS = [("xyz", "xyz"), ("xyz", "zyx"), ("zyx", "xyz"), ("zyx", "zyx")]


class IoStub:
    """assumed/proved-elsewhere contracts of ioutils loaders for array input: tlt_load returns the angles array unchanged;
    indices_load returns idx - 1 when numbered_from_1 else idx"""

    @staticmethod
    def tlt_load(a, sort_angles=True):
        return a

    @staticmethod
    def indices_load(idx, numbered_from_1=True):
        return idx.shifted(-1) if numbered_from_1 else idx


class IdxList(voxels._Generic):
    """list of tilt indices to remove: generic element r (any listed index)"""

    def __init__(self, offset=0):
        self.offset = offset
        self.n = SV(z3.Int("n_removed"))
        self.member = z3.Function("listed_for_removal", z3.IntSort(), z3.BoolSort())  # over the indices as GIVEN by the caller

    def shifted(self, d):
        return IdxList(self.offset + d) if True else None

    def __generic_iter__(self):
        r = SV(z3.Int("r_given"))
        ctx().assume(self.member(r.t))
        return [r + self.offset]

    @property
    def shape(self):
        return (self.n,)


class CryomapStub:
    writes = []

    @staticmethod
    def write(data, name, data_type=None, transpose=True, **k):
        CryomapStub.writes.append((data, name, data_type, transpose))

    @staticmethod
    def read(*a, **k):
        raise Unsupported("file input (bounded stand-in)")


def _interp():
    g = common.base_globals()
    CryomapStub.writes = []
    g.update({"cryomap": CryomapStub, "ioutils": IoStub})
    it = Interp("tiltstack", g)
    it.globals["TiltStack"] = misc.ClassRef(it, "TiltStack")
    return it


def _stack(cx, order):
    n, h, w = SV(z3.Int("N")), SV(z3.Int("H")), SV(z3.Int("W"))
    for s in (n, h, w):
        cx.assume(s.t >= 1)
    shape = [w, h, n] if order == "xyz" else [n, h, w]
    x = voxels.input_array("stack", shape, "float32")
    # pixel (tilt t, row y, column x) of the input, whatever the storage order
    px = (lambda t, y, xx: x.fn(xx, y, t)) if order == "xyz" else (lambda t, y, xx: x.fn(t, y, xx))
    return x, px, (n, h, w)


def _out_px(res, order):
    """(shape as (n,h,w), function (t,y,x) -> value) of a result delivered in `order`"""
    if order == "xyz":
        return (res.shape_[2], res.shape_[1], res.shape_[0]), (lambda t, y, xx: voxels.subst_index(res.elem, {0: xx, 1: y, 2: t}))
    return (res.shape_[0], res.shape_[1], res.shape_[2]), (lambda t, y, xx: voxels.subst_index(res.elem, {0: t, 1: y, 2: xx}))


T, Y, X = z3.Int("t"), z3.Int("y"), z3.Int("x")


class _Op(Contract):
    prop = "C15"
    module = "tiltstack"
    configs = [{"in": i, "out": o} for i, o in ORDERS]

    def cfg_name(self, cfg):
        return f"{cfg['in']}->{cfg['out']}"

    def _common(self, cfg, inp, res, nhw, value_at, extra_hyp=()):
        """result pixel (t,y,x) == value_at(t,y,x), result shape == nhw, the written array (if any) is the (n,y,x) result"""
        (n, h, w), f = _out_px(res, cfg["out"])
        hy = [T >= 0, T < sym.to_z3(nhw[0]), Y >= 0, Y < sym.to_z3(nhw[1]), X >= 0, X < sym.to_z3(nhw[2])] + list(extra_hyp)
        cl = [("result_shape", z3.And(sym.to_z3(n) == sym.to_z3(nhw[0]), sym.to_z3(h) == sym.to_z3(nhw[1]), sym.to_z3(w) == sym.to_z3(nhw[2])), (), hy),
              ("result_pixel", zr(f(T, Y, X)) == value_at(T, Y, X), (), hy),
              ("frame.input_not_mutated", z3.BoolVal(bool(inp["x"].elem.t.eq(inp["orig"]))))]
        wr = CryomapStub.writes
        cl.append(("one_file_written_in_nyx_order_without_transposition", z3.BoolVal(len(wr) == 1 and wr[0][1] == "out.mrc" and wr[0][3] is False)))
        cl.append(("file_written_with_the_stacks_data_type", z3.BoolVal(len(wr) == 1 and wr[0][2] is not None and str(wr[0][2]) == str(inp["x"].dtype))))
        if len(wr) == 1:
            W = wr[0][0]
            cl.append(("written_file_holds_the_result", z3.And(*[voxels._size_t(a) == sym.to_z3(b) for a, b in zip(W.shape_, nhw)],
                                                              zr(voxels.subst_index(W.elem, {0: T, 1: Y, 2: X})) == value_at(T, Y, X)), (), hy))
        return cl

    def replay(self, clause, model, cfg):
        from rtc import c15 as r
        return r.replay_op(self.qual, cfg)


class Crop(_Op):
    qual = "crop"
    configs = [{"in": i, "out": o, "given": g} for i, o in ORDERS for g in ("both", "width-only", "height-only", "none")]

    def cfg_name(self, cfg):
        return f"{cfg['in']}->{cfg['out']},sizes={cfg['given']}"

    def bind(self, cx, cfg):
        it = _interp()
        x, px, (n, h, w) = _stack(cx, cfg["in"])
        nw, nh = SV(z3.Int("new_w")), SV(z3.Int("new_h"))
        cx.assume(z3.And(nw.t >= 1, nw.t <= w.t, nh.t >= 1, nh.t <= h.t))
        f = it.function("crop")
        a_w = nw if cfg["given"] in ("both", "width-only") else None
        a_h = nh if cfg["given"] in ("both", "height-only") else None
        # a size that is not given defaults to the full image size
        return (lambda: f(x, new_width=a_w, new_height=a_h, output_file="out.mrc", input_order=cfg["in"], output_order=cfg["out"])), {"x": x, "orig": x.elem.t, "px": px, "nhw": (n, h, w), "nw": (nw if a_w is not None else w), "nh": (nh if a_h is not None else h)}

    def post(self, cx, cfg, inp, res):
        n, h, w = inp["nhw"]
        nw, nh = inp["nw"], inp["nh"]
        sx, sy = w.t / 2 - nw.t / 2, h.t / 2 - nh.t / 2  # central window [floor(W/2) - floor(w/2), +w)
        return self._common(cfg, inp, res, (n, nh, nw), lambda t, y, x: inp["px"](t, y + sy, x + sx))


class CropTooLarge(Contract):
    prop = "C15"
    module = "tiltstack"
    qual = "crop"
    configs = [{"which": "width"}, {"which": "height"}]

    def cfg_name(self, cfg):
        return f"too-large-{cfg['which']}"

    def bind(self, cx, cfg):
        it = _interp()
        x, px, (n, h, w) = _stack(cx, "xyz")
        nw, nh = SV(z3.Int("new_w")), SV(z3.Int("new_h"))
        cx.assume(z3.And(nw.t >= 1, nh.t >= 1, (nw.t > w.t) if cfg["which"] == "width" else z3.And(nw.t <= w.t, nh.t > h.t)))
        return (lambda: it.function("crop")(x, new_width=nw, new_height=nh)), {}

    def post(self, cx, cfg, inp, res):
        return [("window_larger_than_image_rejected", z3.BoolVal(False))]

    def raises(self, cx, cfg, inp, exc):
        return z3.BoolVal(exc.exc_type == "ValueError")


class SortByAngle(_Op):
    qual = "sort_tilts_by_angle"

    def bind(self, cx, cfg):
        it = _interp()
        x, px, (n, h, w) = _stack(cx, cfg["in"])
        ang = voxels.input_array("angle", [n])
        f = it.function("sort_tilts_by_angle")
        return (lambda: f(x, ang, output_file="out.mrc", input_order=cfg["in"], output_order=cfg["out"])), {"x": x, "orig": x.elem.t, "px": px, "nhw": (n, h, w), "ang": ang}

    def post(self, cx, cfg, inp, res):
        # the index map used on the tilt axis must be argsort of the given angles (the assumed contract of argsort then says: a permutation
        # putting the angles in ascending order), applied to the tilt axis only
        maps = [d for d in self._maps(res)]
        n, h, w = inp["nhw"]
        ok = len(maps) == 1 and maps[0].kind == "argsort" and maps[0].source is inp["ang"]
        cl = [("tilt_axis_indexed_by_argsort_of_the_given_angles", z3.BoolVal(ok))]
        if not ok:
            return cl
        sig = maps[0].fn
        return cl + self._common(cfg, inp, res, (n, h, w), lambda t, y, x: inp["px"](sig(t), y, x))

    def _maps(self, res):
        import re
        names = set(re.findall(r"argsort![0-9]+", res.elem.t.sexpr()))
        return [voxels.IndexMap.registry[nm] for nm in names if nm in voxels.IndexMap.registry]


class RemoveTilts(_Op):
    qual = "remove_tilts"
    configs = [{"in": i, "out": o, "from1": f} for i, o in ORDERS for f in (True, False)]

    def cfg_name(self, cfg):
        return f"{cfg['in']}->{cfg['out']},numbered_from_1={cfg['from1']}"

    def bind(self, cx, cfg):
        it = _interp()
        x, px, (n, h, w) = _stack(cx, cfg["in"])
        idx = IdxList()
        base = 1 if cfg["from1"] else 0
        # requires (non-raising path is the one of interest): every listed index is a valid tilt number
        r = z3.Int("r_given")
        f = it.function("remove_tilts")
        return (lambda: f(x, idx, numbered_from_1=cfg["from1"], output_file="out.mrc", input_order=cfg["in"], output_order=cfg["out"])), {"x": x, "orig": x.elem.t, "px": px, "nhw": (n, h, w), "idx": idx, "base": base}

    def post(self, cx, cfg, inp, res):
        n, h, w = inp["nhw"]
        km = getattr(res, "kept_map", None) or getattr(CryomapStub.writes[0][0] if CryomapStub.writes else None, "kept_map", None)
        cl = [("tilt_axis_is_np_delete_of_the_zero_based_indices", z3.BoolVal(km is not None and km.kind == "delete" and isinstance(km.source, IdxList) and km.source.offset == -inp["base"]))]
        if km is None:
            return cl
        # on the returning path every listed index was inside the stack (the bounds check did not raise)
        r = z3.Int("r_given")
        cl.append(("listed_indices_in_range_or_rejected", z3.Implies(inp["idx"].member(r), z3.And(r - inp["base"] >= 0, r - inp["base"] < n.t)), ()))
        return cl + self._common(cfg, inp, res, (km.n, h, w), lambda t, y, x: inp["px"](km.fn(t), y, x))

    def raises(self, cx, cfg, inp, exc):
        r = z3.Int("r_given")
        n = z3.Int("N")
        base = 1 if cfg["from1"] else 0
        return z3.And(z3.BoolVal(exc.exc_type == "IndexError"), z3.Or(r - base < 0, r - base >= n))


class Flip(_Op):
    qual = "flip_along_axes"
    configs = [{"in": i, "out": o, "axes": a} for i, o in ORDERS for a in (["x"], ["y"], ["z"], ["x", "x"], ["y", "z", "y", "z"])]

    def cfg_name(self, cfg):
        return f"{cfg['in']}->{cfg['out']},axes={''.join(cfg['axes'])}"

    def bind(self, cx, cfg):
        it = _interp()
        x, px, (n, h, w) = _stack(cx, cfg["in"])
        f = it.function("flip_along_axes")
        return (lambda: f(x, list(cfg["axes"]), output_file="out.mrc", input_order=cfg["in"], output_order=cfg["out"])), {"x": x, "orig": x.elem.t, "px": px, "nhw": (n, h, w)}

    def post(self, cx, cfg, inp, res):
        n, h, w = inp["nhw"]
        odd = {a: cfg["axes"].count(a) % 2 == 1 for a in "xyz"}
        # each flip reverses exactly one axis of the images / the stack; flipping along the same axis twice is the identity
        def val(t, y, x):
            tt = n.t - 1 - t if odd["z"] else t
            yy = h.t - 1 - y if odd["x"] else y   # 'x' flips rows (mirror about the x axis), as the code documents
            xx = w.t - 1 - x if odd["y"] else x
            return inp["px"](tt, yy, xx)
        return self._common(cfg, inp, res, (n, h, w), val)


CONTRACTS = [Crop, CropTooLarge, SortByAngle, RemoveTilts, Flip]
LEVEL = "proof"
EXPLANATION = ("Every operation is proved as an index map on the generic pixel (tilt t, row y, column x) for all four input/output order combinations: the result is independent of the storage order of the "
               "input, is delivered in the requested order, and the array handed to the writer is the (n,y,x) result; crop = central window, sort = images picked by argsort of the given angles, "
               "remove = np.delete of the 0-based indices with out-of-range indices rejected, flips = reversal of one axis with double flips cancelling. Binning (block means), even/odd split, merge and file input: bounded.")
ASSUMPTIONS = ["numpy contracts: argsort returns a permutation sorting ascending; delete(axis=0) keeps the unlisted rows in order; slicing/transposition index algebra as modelled",
               "ioutils.tlt_load / indices_load for array input (identity / minus one when numbered from 1) -- checked in the bounded stand-in; cryomap.write stores what it is given (C11)"]


def lemmas(ck):
    k, n = z3.Ints("k n")
    ck.lemma("double_reversal_is_identity", [], n - 1 - (n - 1 - k) == k, tactics=())
    e, o = z3.Function("even_part", z3.IntSort(), z3.RealSort()), z3.Function("odd_part", z3.IntSort(), z3.RealSort())
    inp = z3.Function("in", z3.IntSort(), z3.RealSort())
    ck.lemma("interleaving_even_odd_restores_the_input", [e(k / 2) == inp(2 * (k / 2)), o(k / 2) == inp(2 * (k / 2) + 1), k >= 0], z3.If(k % 2 == 0, e(k / 2), o(k / 2)) == inp(k), tactics=(),
             note="given even[j] = in[2j] and odd[j] = in[2j+1] (checked bounded for split_stack_even_odd)")


def run(ck):
    for C in CONTRACTS:
        ck.run_contract(C())
    lemmas(ck)
    from rtc import c15 as r
    n = 60 if ck.tier == "quick" else 1000
    ck.bounded_run("tilt_stack_ops", r.gen_cases(ck.seed, n, 12 if ck.tier == "quick" else 40), r.run_case, ref="rtc.c15:run_case",
                   rule="stacks with 2..25 tilts, independent non-square image sizes 4..N, float32/int16, angles without ties, any index subset, all four order combinations, array vs MRC-file input, output file re-read "
                        "independently; all operations incl. bin / split / merge. distinct = (case, operation, shape, orders)",
                   bound=f"{n} cases, image sizes <= {12 if ck.tier == 'quick' else 40}")
